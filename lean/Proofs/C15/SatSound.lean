import Proofs.C15.ElemSize
/-!
C15 — what the (modelled) satisfier returns is one of the stacks the satisfaction tables list:
`satisfy ⊆ Sat` for the covered fragment set.
-/
namespace Btc.Miniscript
open Btc Gen.Miniscript

/-- the spender's signatures verify and the preimages hash to their digests, in the evaluator's
    environment. -/
def EnvOK (E : EvalEnv) (ctx : Ctx) (env : SatEnv) : Prop :=
  (∀ k σ, offered ctx env k = some σ → E.sigOK k σ = true) ∧
  (∀ h d p, preimageOf env h d = some p → E.hashF h p = d) ∧
  (∀ n, olderMet env n = true → E.csvOK (encodeNum n) = true) ∧
  (∀ n, afterMet env n = true → E.cltvOK (encodeNum n) = true)

mutual
/-- no digest of the expression is the hash of 32 zero bytes (the satisfier's dissatisfaction of
    a hash fragment). -/
def zeroOK (E : EvalEnv) : Ms → Bool
  | .hash h d => E.hashF h (List.replicate 32 0) != d
  | .wrap _ x => zeroOK E x
  | .bin _ x y => zeroOK E x && zeroOK E y
  | .andor x y z => zeroOK E x && zeroOK E y && zeroOK E z
  | .thresh _ x xs => zeroOK E x && zeroOKL E xs
  | _ => true
def zeroOKL (E : EvalEnv) : MsL → Bool
  | .nil => true
  | .cons x xs => zeroOK E x && zeroOKL E xs
end

section
variable (E : EvalEnv) (ctx : Ctx) (env : SatEnv)

/-- the satisfier's candidates are table entries. -/
def SatInv (n : Ms) : Prop :=
  (∀ w, (inputs ctx env n).sat.stack = some w → Sat E n w.reverse) ∧
  (∀ w, (inputs ctx env n).dsat.stack = some w → Dsat E n w.reverse)

/-- the candidates of every argument of a `thresh()` are table entries. -/
def SatInvL : MsL → Prop
  | .nil => True
  | .cons x xs => SatInv E ctx env x ∧ SatInvL xs

theorem sigInput_some {k : Key} {t : List Bytes} (h : (sigInput ctx env k).stack = some t) :
    ∃ σ, t = [σ] ∧ offered ctx env k = some σ := by
  unfold sigInput at h
  cases ho : offered ctx env k with
  | none => simp [ho, noWitness] at h
  | some σ => simp [ho, element] at h; exact ⟨σ, h.symm, rfl⟩

/-- `reached[j]` of a `multi_a()` over the keys `ks` read so far (from the last): `j` signatures. -/
def RowInv (ks : List Key) (j : Nat) (i : Input) : Prop :=
  ∀ w, i.stack = some w → SigRow E ks w.reverse j

theorem rowInv_foldr (hE : EnvOK E ctx env) : ∀ (ks : List Key),
    AllIdx (RowInv E ks) 0
      (ks.foldr (fun key r => multiStep zeroPush r (sigInput ctx env key)) [noPushes])
  | [] => by
    refine ⟨?_, trivial⟩
    intro w h; simp [noPushes] at h; subst h; exact .nil
  | k :: ks => by
    have ih := rowInv_foldr hE ks
    simp only [List.foldr_cons]
    have skip : ∀ j i, RowInv E ks j i → RowInv E (k :: ks) j (both i zeroPush) := by
      intro j i hi w hw
      obtain ⟨s, t, hs, ht, rfl⟩ := both_some hw
      simp [zeroPush, element] at ht; subst ht
      simpa using SigRow.skip k ks _ j (hi s hs)
    have sign : ∀ j i, RowInv E ks j i → RowInv E (k :: ks) (j + 1) (both i (sigInput ctx env k)) := by
      intro j i hi w hw
      obtain ⟨s, t, hs, ht, rfl⟩ := both_some hw
      obtain ⟨σ, rfl, ho⟩ := sigInput_some ctx env ht
      simpa using SigRow.sign k ks σ _ j (hE.1 k σ ho) (hi s hs)
    refine dpStep_idx (RowInv E ks) (RowInv E (k :: ks)) _ _ _ (fun a h => skip 0 a h) ?_
      (fun i l h => sign i l h) _ ih
    intro i p c hp hc w hw
    rcases better_some hw with h | h
    · exact skip (i + 1) c hc w h
    · exact sign i p hp w h

/-- `reached[j]` of a `multi()` over the keys `ps` read so far (from the first): the dummy and `j`
    signatures, in key order. -/
def SubInv (ps : List Key) (j : Nat) (i : Input) : Prop :=
  ∀ w, i.stack = some w → ∃ sigs, w = [] :: sigs ∧ sigs.length = j ∧ SigSub E ps.reverse sigs.reverse

theorem subInv_foldl (hE : EnvOK E ctx env) : ∀ (ks ps : List Key) (r : List Input),
    AllIdx (SubInv E ps) 0 r →
    AllIdx (SubInv E (ps ++ ks)) 0
      (ks.foldl (fun r key => multiStep noPushes r (sigInput ctx env key)) r)
  | [], ps, r, h => by simpa using h
  | k :: ks, ps, r, h => by
    simp only [List.foldl_cons]
    have e : ps ++ k :: ks = (ps ++ [k]) ++ ks := by simp
    rw [e]
    refine subInv_foldl hE ks (ps ++ [k]) _ ?_
    have skip : ∀ j i, SubInv E ps j i → SubInv E (ps ++ [k]) j (both i noPushes) := by
      intro j i hi w hw
      obtain ⟨s, t, hs, ht, rfl⟩ := both_some hw
      simp [noPushes] at ht; subst ht
      obtain ⟨sigs, rfl, hl, hsub⟩ := hi s hs
      exact ⟨sigs, by simp, hl, by simpa using SigSub.skip k _ _ hsub⟩
    have sign : ∀ j i, SubInv E ps j i → SubInv E (ps ++ [k]) (j + 1) (both i (sigInput ctx env k)) := by
      intro j i hi w hw
      obtain ⟨s, t, hs, ht, rfl⟩ := both_some hw
      obtain ⟨σ, rfl, ho⟩ := sigInput_some ctx env ht
      obtain ⟨sigs, rfl, hl, hsub⟩ := hi s hs
      exact ⟨sigs ++ [σ], by simp, by simp [hl], by simpa using SigSub.sign k _ σ _ (hE.1 k σ ho) hsub⟩
    refine dpStep_idx (SubInv E ps) (SubInv E (ps ++ [k])) _ _ _ (fun a h => skip 0 a h) ?_
      (fun i l h => sign i l h) _ h
    intro i p c hp hc w hw
    rcases better_some hw with h | h
    · exact skip (i + 1) c hc w h
    · exact sign i p hp w h

theorem multiDsat_stack : ∀ k, (multiDsat k).stack = some (List.replicate (k + 1) [])
  | 0 => rfl
  | k + 1 => by
    simp only [multiDsat, both, multiDsat_stack k, zeroPush, element]
    simp [List.replicate_succ']

/-- `reached[j]` of a `thresh()` over the arguments `xs` read so far (from the last). -/
def ListInv (xs : MsL) (j : Nat) (i : Input) : Prop :=
  ∀ w, i.stack = some w → SatL E xs w.reverse j

theorem listInv_step (x : Ms) (xs : MsL) (hx : SatInv E ctx env x) (r : List Input)
    (h : AllIdx (ListInv E xs) 0 r) :
    AllIdx (ListInv E (.cons x xs)) 0 (threshStepIn r (inputs ctx env x)) := by
  have skip : ∀ j i, ListInv E xs j i → ListInv E (.cons x xs) j (both i (inputs ctx env x).dsat) := by
    intro j i hi w hw
    obtain ⟨s, t, hs, ht, rfl⟩ := both_some hw
    simpa using SatL.dsat x xs _ _ j (hx.2 t ht) (hi s hs)
  have sign : ∀ j i, ListInv E xs j i →
      ListInv E (.cons x xs) (j + 1) (both i (inputs ctx env x).sat) := by
    intro j i hi w hw
    obtain ⟨s, t, hs, ht, rfl⟩ := both_some hw
    simpa using SatL.sat x xs _ _ j (hx.1 t ht) (hi s hs)
  refine dpStep_idx (ListInv E xs) (ListInv E (.cons x xs)) _ _ _ (fun a h => skip 0 a h) ?_
    (fun i l h => sign i l h) _ h
  intro i p c hp hc w hw
  rcases better_some hw with h | h
  · exact skip (i + 1) c hc w h
  · exact sign i p hp w h

theorem listInv_foldr : ∀ (xs : MsL), SatInvL E ctx env xs →
    AllIdx (ListInv E xs) 0
      ((inputsL ctx env xs).foldr (fun sub r => threshStepIn r sub) [noPushes])
  | .nil, _ => by
    refine ⟨?_, trivial⟩
    intro w h; simp [noPushes] at h; subst h; exact .nil
  | .cons x xs, h => by
    simp only [inputsL, List.foldr_cons]
    exact listInv_step E ctx env x xs h.1 _ (listInv_foldr xs h.2)

/-- the dissatisfaction `_thresh_input` settles on: some count other than the threshold. -/
theorem threshDsat_inv (xs : MsL) (k : Nat) : ∀ (r : List Input) (c : Nat) (acc : Input),
    AllIdx (ListInv E xs) c r →
    (∀ w, acc.stack = some w → ∃ j, j ≠ k ∧ SatL E xs w.reverse j) →
    ∀ w, (threshDsat k c r acc).stack = some w → ∃ j, j ≠ k ∧ SatL E xs w.reverse j
  | [], _, acc, _, ha => by simpa [threshDsat] using ha
  | x :: r, c, acc, hr, ha => by
    simp only [threshDsat]
    refine threshDsat_inv xs k r (c + 1) _ hr.2 ?_
    split
    · exact ha
    · rename_i hck
      intro w hw
      rcases better_some hw with h | h
      · exact ha w h
      · refine ⟨c, hck, hr.1 w ?_⟩
        split at h
        · exact h
        · simpa using h

mutual
theorem satInv (hE : EnvOK E ctx env) (hS : SigsSmall ctx env) : ∀ (n : Ms), inS1 n = true →
    shaped ctx n = true → zeroOK E n = true → SatInv E ctx env n
  | .f0, _, _, _ => by
    constructor <;> intro w h <;> simp [inputs, noWitness, noPushes] at h
    subst h; exact .f0
  | .f1, _, _, _ => by
    constructor <;> intro w h <;> simp [inputs, noWitness, noPushes] at h
    subst h; exact .f1
  | .pk_k k, _, _, _ => by
    constructor
    · intro w h
      simp only [inputs, keyInput, sigInput] at h
      cases ho : offered ctx env k with
      | none => simp [ho, noWitness] at h
      | some σ =>
        simp [ho, element] at h
        subst h
        exact .pk_k k σ (hE.1 k σ ho)
    · intro w h
      simp [inputs, keyInput, zeroPush, element] at h
      subst h; exact .pk_k k
  | .pk_h k, _, _, _ => by
    constructor
    · intro w h
      simp only [inputs, keyInput, sigInput] at h
      cases ho : offered ctx env k with
      | none => simp [ho, both, noWitness] at h
      | some σ =>
        simp [ho, both, element] at h
        subst h
        exact .pk_h k σ (hE.1 k σ ho)
    · intro w h
      simp [inputs, keyInput, both, zeroPush, element] at h
      subst h; exact .pk_h k
  | .hash hk d, _, _, hz => by
    simp only [zeroOK, bne_iff_ne, ne_eq] at hz
    constructor
    · intro w h
      simp only [inputs] at h
      cases hp : preimageOf env hk d with
      | none => simp [hp, noWitness] at h
      | some p =>
        simp [hp, element] at h
        subst h
        exact .hash hk d p (preimageOf_len hp) (hE.2.1 hk d p hp)
    · intro w h
      simp [inputs, zero32Push] at h
      subst h
      exact .hash hk d _ (by simp) hz
  | .older n, _, _, _ => by
    constructor
    · intro w h
      simp only [inputs] at h
      cases hm : olderMet env n with
      | false => simp [hm, noWitness] at h
      | true => simp [hm, noPushes] at h; subst h; exact .older n (hE.2.2.1 n hm)
    · intro w h; simp [inputs, noWitness] at h
  | .after n, _, _, _ => by
    constructor
    · intro w h
      simp only [inputs] at h
      cases hm : afterMet env n with
      | false => simp [hm, noWitness] at h
      | true => simp [hm, noPushes] at h; subst h; exact .after n (hE.2.2.2 n hm)
    · intro w h; simp [inputs, noWitness] at h
  | .wrap w x, hin, hsh, hz => by
    simp only [inS1, Bool.and_eq_true, Bool.or_eq_true, beq_iff_eq] at hin
    simp only [zeroOK] at hz
    simp only [shaped] at hsh
    obtain ⟨ihs, ihd⟩ := satInv hE hS x hin.2 hsh hz
    rcases hin.1 with (((((rfl | rfl) | rfl) | rfl) | rfl) | rfl) | rfl
    · exact ⟨fun v h => .wrap _ _ _ (by decide) (by decide) (ihs v (by simpa [inputs, wrapperInput] using h)),
        fun v h => .wrap_c _ _ (ihd v (by simpa [inputs, wrapperInput] using h))⟩
    · exact ⟨fun v h => .wrap _ _ _ (by decide) (by decide) (ihs v (by simpa [inputs, wrapperInput] using h)),
        fun v h => by simp [inputs, wrapperInput, noWitness] at h⟩
    · exact ⟨fun v h => .wrap _ _ _ (by decide) (by decide) (ihs v (by simpa [inputs, wrapperInput] using h)),
        fun v h => .wrap_a _ _ (ihd v (by simpa [inputs, wrapperInput] using h))⟩
    · exact ⟨fun v h => .wrap _ _ _ (by decide) (by decide) (ihs v (by simpa [inputs, wrapperInput] using h)),
        fun v h => .wrap_n _ _ (ihd v (by simpa [inputs, wrapperInput] using h))⟩
    · exact ⟨fun v h => .wrap _ _ _ (by decide) (by decide) (ihs v (by simpa [inputs, wrapperInput] using h)),
        fun v h => .wrap_s _ _ (ihd v (by simpa [inputs, wrapperInput] using h))⟩
    · constructor
      · intro v h
        simp only [inputs, wrapperInput] at h
        obtain ⟨s, t, hs, ht, rfl⟩ := both_some h
        simp [onePush, element] at ht
        subst ht
        simpa using Sat.wrap_d x _ (ihs s hs)
      · intro v h
        simp [inputs, wrapperInput, zeroPush, element] at h
        subst h; exact .wrap_d x
    · constructor
      · intro v h
        simp only [inputs, wrapperInput] at h
        refine .wrap_j x _ (ihs v h) ?_
        intro e he
        have := (small_s1 ctx env hS x hin.2 hsh).1 v h e (List.mem_reverse.mp he)
        omega
      · intro v h
        simp [inputs, wrapperInput, zeroPush, element] at h
        subst h; exact .wrap_j x
  | .bin b x y, hin, hsh, hz => by
    simp only [inS1, Bool.and_eq_true, Bool.or_eq_true, beq_iff_eq] at hin
    simp only [zeroOK, Bool.and_eq_true] at hz
    simp only [shaped, Bool.and_eq_true] at hsh
    obtain ⟨xs, xd⟩ := satInv hE hS x hin.1.2 hsh.1 hz.1
    obtain ⟨ys, yd⟩ := satInv hE hS y hin.2 hsh.2 hz.2
    rcases hin.1.1 with ((((rfl | rfl) | rfl) | rfl) | rfl) | rfl
    · -- and_v
      constructor
      · intro v h
        simp only [inputs, binInput] at h
        obtain ⟨s, t, hs, ht, rfl⟩ := both_some h
        simpa using Sat.and_v x y _ _ (xs t ht) (ys s hs)
      · intro v h
        simp only [inputs, binInput, nonCanon_stack'] at h
        obtain ⟨s, t, hs, ht, rfl⟩ := both_some h
        simpa using Dsat.and_v_d x y _ _ (xs t ht) (yd s hs)
    · -- and_b
      constructor
      · intro v h
        simp only [inputs, binInput] at h
        obtain ⟨s, t, hs, ht, rfl⟩ := both_some h
        simpa using Sat.and_b x y _ _ (xs t ht) (ys s hs)
      · intro v h
        simp only [inputs, binInput] at h
        rcases better_some h with h | h
        · obtain ⟨s, t, hs, ht, rfl⟩ := both_some h
          simpa using Dsat.and_b x y _ _ (xd t ht) (yd s hs)
        · rcases better_some h with h | h
          · simp only [overcomplete_stack'] at h
            obtain ⟨s, t, hs, ht, rfl⟩ := both_some h
            simpa using Dsat.and_b_r x y _ _ (xd t ht) (ys s hs)
          · simp only [overcomplete_stack'] at h
            obtain ⟨s, t, hs, ht, rfl⟩ := both_some h
            simpa using Dsat.and_b_l x y _ _ (xs t ht) (yd s hs)
    · -- or_b
      constructor
      · intro v h
        simp only [inputs, binInput] at h
        rcases better_some h with h | h
        · rcases better_some h with h | h
          · obtain ⟨s, t, hs, ht, rfl⟩ := both_some h
            simpa using Sat.or_b_l x y _ _ (xs t ht) (yd s hs)
          · obtain ⟨s, t, hs, ht, rfl⟩ := both_some h
            simpa using Sat.or_b_r x y _ _ (xd t ht) (ys s hs)
        · simp only [overcomplete_stack'] at h
          obtain ⟨s, t, hs, ht, rfl⟩ := both_some h
          simpa using Sat.or_b_both x y _ _ (xs t ht) (ys s hs)
      · intro v h
        simp only [inputs, binInput] at h
        obtain ⟨s, t, hs, ht, rfl⟩ := both_some h
        simpa using Dsat.or_b x y _ _ (xd t ht) (yd s hs)
    · -- or_i
      constructor
      · intro v h
        simp only [inputs, binInput] at h
        rcases better_some h with h | h
        · obtain ⟨s, t, hs, ht, rfl⟩ := both_some h
          simp [onePush, element] at ht; subst ht
          simpa using Sat.or_i_l x y _ (xs s hs)
        · obtain ⟨s, t, hs, ht, rfl⟩ := both_some h
          simp [zeroPush, element] at ht; subst ht
          simpa using Sat.or_i_r x y _ (ys s hs)
      · intro v h
        simp only [inputs, binInput] at h
        rcases better_some h with h | h
        · obtain ⟨s, t, hs, ht, rfl⟩ := both_some h
          simp [onePush, element] at ht; subst ht
          simpa using Dsat.or_i_l x y _ (xd s hs)
        · obtain ⟨s, t, hs, ht, rfl⟩ := both_some h
          simp [zeroPush, element] at ht; subst ht
          simpa using Dsat.or_i_r x y _ (yd s hs)
    · -- or_c
      constructor
      · intro v h
        simp only [inputs, binInput] at h
        rcases better_some h with h | h
        · exact .or_c_l x y _ (xs v h)
        · obtain ⟨s, t, hs, ht, rfl⟩ := both_some h
          simpa using Sat.or_c_r x y _ _ (xd t ht) (ys s hs)
      · intro v h
        simp [inputs, binInput, noWitness] at h
    · -- or_d
      constructor
      · intro v h
        simp only [inputs, binInput] at h
        rcases better_some h with h | h
        · exact .or_d_l x y _ (xs v h)
        · obtain ⟨s, t, hs, ht, rfl⟩ := both_some h
          simpa using Sat.or_d_r x y _ _ (xd t ht) (ys s hs)
      · intro v h
        simp only [inputs, binInput] at h
        obtain ⟨s, t, hs, ht, rfl⟩ := both_some h
        simpa using Dsat.or_d x y _ _ (xd t ht) (yd s hs)
  | .andor x y z, hin, hsh, hz => by
    simp only [inS1, Bool.and_eq_true] at hin
    simp only [zeroOK, Bool.and_eq_true] at hz
    simp only [shaped, Bool.and_eq_true] at hsh
    obtain ⟨xs, xd⟩ := satInv hE hS x hin.1.1 hsh.1.1 hz.1.1
    obtain ⟨ys, yd⟩ := satInv hE hS y hin.1.2 hsh.1.2 hz.1.2
    obtain ⟨zs, zd⟩ := satInv hE hS z hin.2 hsh.2 hz.2
    constructor
    · intro v h
      simp only [inputs, andorInput] at h
      rcases better_some h with h | h
      · obtain ⟨s, t, hs, ht, rfl⟩ := both_some h
        simpa using Sat.andor_l x y z _ _ (xs t ht) (ys s hs)
      · obtain ⟨s, t, hs, ht, rfl⟩ := both_some h
        simpa using Sat.andor_r x y z _ _ (xd t ht) (zs s hs)
    · intro v h
      simp only [inputs, andorInput] at h
      rcases better_some h with h | h
      · simp only [nonCanon_stack'] at h
        obtain ⟨s, t, hs, ht, rfl⟩ := both_some h
        simpa using Dsat.andor_y x y z _ _ (xs t ht) (yd s hs)
      · obtain ⟨s, t, hs, ht, rfl⟩ := both_some h
        simpa using Dsat.andor x y z _ _ (xd t ht) (zd s hs)
  | .multi k keys, _, hsh, _ => by
    have hinv := subInv_foldl E ctx env hE keys [] [zeroPush]
      ⟨fun w h => ⟨[], by simpa [zeroPush, element] using h.symm, rfl, .nil⟩, trivial⟩
    constructor
    · intro w h
      simp only [inputs, multiInput, Bool.false_eq_true, if_false] at h
      have := AllIdx_getD (SubInv E ([] ++ keys)) noWitness (fun _ w h => by simp [noWitness] at h)
        0 _ k hinv
      obtain ⟨sigs, rfl, hl, hsub⟩ := this w h
      simp only [List.nil_append] at hsub
      simpa using Sat.multi k keys sigs.reverse (by simp at hl ⊢; omega) hsub
    · intro w h
      simp only [inputs, multiInput, Bool.false_eq_true, if_false, multiDsat_stack] at h
      cases h
      simpa using Dsat.multi (E := E) k keys
  | .multi_a k keys, _, hsh, _ => by
    have hinv := rowInv_foldr E ctx env hE keys
    have hget := fun j => AllIdx_getD (RowInv E keys) noWitness (fun _ w h => by simp [noWitness] at h)
      0 _ j hinv
    constructor
    · intro w h
      simp only [inputs, multiInput, if_true] at h
      have := hget k w h
      simp only [Nat.zero_add] at this
      exact .multi_a k keys _ this
    · intro w h
      simp only [inputs, multiInput, if_true] at h
      have := hget 0 w h
      simp only [shaped, Bool.and_eq_true, decide_eq_true_eq] at hsh
      exact .multi_a k keys _ 0 this (by omega)
  | .thresh k x xs, hin, hsh, hz => by
    simp only [inS1, Bool.and_eq_true] at hin
    simp only [zeroOK, Bool.and_eq_true] at hz
    simp only [shaped, Bool.and_eq_true] at hsh
    have hx := satInv hE hS x hin.1 hsh.1.2 hz.1
    have hxs := satInvL hE hS xs hin.2 hsh.2 hz.2
    have hinv := listInv_step E ctx env x xs hx _ (listInv_foldr E ctx env xs hxs)
    constructor
    · intro w h
      simp only [inputs, threshInput, List.foldr_cons] at h
      have := AllIdx_getD (ListInv E (.cons x xs)) noWitness (fun _ w h => by simp [noWitness] at h)
        0 _ k hinv w h
      simp only [Nat.zero_add] at this
      exact .thresh k x xs _ this
    · intro w h
      simp only [inputs, threshInput, List.foldr_cons] at h
      obtain ⟨j, hj, hl⟩ := threshDsat_inv E (.cons x xs) k _ 0 noWitness hinv
        (fun w h => by simp [noWitness] at h) w h
      exact .thresh k x xs _ j hl hj
theorem satInvL (hE : EnvOK E ctx env) (hS : SigsSmall ctx env) : ∀ (xs : MsL), inS1L xs = true →
    shapedL ctx xs = true → zeroOKL E xs = true → SatInvL E ctx env xs
  | .nil, _, _, _ => trivial
  | .cons x xs, hin, hsh, hz => by
    simp only [inS1L, Bool.and_eq_true] at hin
    simp only [shapedL, Bool.and_eq_true] at hsh
    simp only [zeroOKL, Bool.and_eq_true] at hz
    exact ⟨satInv hE hS x hin.1 hsh.1 hz.1, satInvL hE hS xs hin.2 hsh.2 hz.2⟩
end

/-- `satisfy ⊆ Sat`: the witness the satisfier returns, read top first, is a listed satisfaction. -/
theorem satisfy_in_Sat (hE : EnvOK E ctx env) (hS : SigsSmall ctx env) (n : Ms)
    (hin : inS1 n = true) (hsh : shaped ctx n = true) (hz : zeroOK E n = true) (w : List Bytes) (h : satisfy ctx env n = .ok w) :
    Sat E n w.reverse := by
  unfold satisfy at h
  cases hs : (inputs ctx env n).sat.stack with
  | none => simp [hs] at h
  | some v =>
    simp only [hs] at h
    split at h
    · cases h
    · cases h
      exact (satInv E ctx env hE hS n hin hsh hz).1 _ hs

end

end Btc.Miniscript
