import Proofs.C15.Sound
import Proofs.C15.OpsCount
import Proofs.C15.Size
/-!
C15 — a satisfaction of a covered expression is ACCEPTED: the run of T3 plus the interpreter's
limits (`accepts`), under `is_within_resource_limits`.
-/
namespace Btc.Miniscript
open Btc Gen.Miniscript

theorem static_le_maxOps (ctx : Ctx) (n : Ms) (o : Nat) (h : maxOps ctx n = some o) :
    (info ctx n).staticOps ≤ o := by
  unfold maxOps at h
  cases hs : (info ctx n).ops.sat with
  | none => rw [hs] at h; simp [addO] at h
  | some k => rw [hs] at h; simp [addO] at h; omega

theorem hasCms_append (a b : List Op) : hasCms (a ++ b) = (hasCms a || hasCms b) := by
  simp [hasCms, List.any_append]
theorem hasCms_cons (o : Op) (os : List Op) : hasCms (o :: os) = (o.isCms || hasCms os) := by
  simp [hasCms]
theorem hasCms_nil : hasCms [] = false := rfl

/-- no expression of the covered set has an OP_CHECKMULTISIG. -/
theorem hasCms_opsOf (ctx : Ctx) (h160 : Bytes → Bytes) :
    ∀ (n : Ms) (v : Bool), inS1 n = true → hasCms (opsOf ctx h160 v n) = false
  | .f0, _, _ | .f1, _, _ | .pk_k _, _, _ | .pk_h _, _, _ | .older _, _, _ | .after _, _, _ => by
    simp [opsOf, hasCms_cons, hasCms_nil, Op.isCms]
  | .hash _ _, v, _ => by cases v <;> simp [opsOf, hasCms_cons, hasCms_nil, Op.isCms]
  | .wrap w x, v, hin => by
    simp only [inS1, Bool.and_eq_true] at hin
    have H := fun b => hasCms_opsOf ctx h160 x b hin.2
    cases w <;> cases v <;> simp [opsOf, hasCms_append, hasCms_cons, hasCms_nil, Op.isCms, H] <;>
      (split <;> simp [hasCms_cons, hasCms_nil, Op.isCms])
  | .bin b x y, v, hin => by
    simp only [inS1, Bool.and_eq_true] at hin
    have Hx := fun b => hasCms_opsOf ctx h160 x b hin.1.2
    have Hy := fun b => hasCms_opsOf ctx h160 y b hin.2
    cases b <;> simp [opsOf, hasCms_append, hasCms_cons, hasCms_nil, Op.isCms, Hx, Hy]
  | .andor x y z, _, hin => by
    simp only [inS1, Bool.and_eq_true] at hin
    simp [opsOf, hasCms_append, hasCms_cons, hasCms_nil, Op.isCms,
      hasCms_opsOf ctx h160 x false hin.1.1,
      hasCms_opsOf ctx h160 y false hin.1.2, hasCms_opsOf ctx h160 z false hin.2]
  | .multi _ _, _, h | .multi_a _ _, _, h | .thresh _ _ _, _, h => by simp [inS1] at h

/-- a run without OP_CHECKMULTISIG charges nothing beyond the static count. -/
theorem execCharge_noCms (E : EvalEnv) : ∀ (ops : List Op) (s : St), hasCms ops = false →
    execCharge E ops s = 0
  | [], _, _ => rfl
  | o :: os, s, h => by
    rw [hasCms_cons, Bool.or_eq_false_iff] at h
    simp only [execCharge, h.1, Bool.and_false, Bool.false_eq_true, if_false, Nat.zero_add]
    cases step E o s with
    | none => rfl
    | some s' => exact execCharge_noCms E os s' h.2

theorem engineLimits_of_withinLimits (ctx : Ctx) (h160 : Bytes → Bytes)
    (hh : ∀ b, (h160 b).length = 20) (n : Ms) (hin : inS1 n = true) (hshape : shaped ctx n = true)
    (hlim : withinLimits ctx n = true) (hops : (maxOps ctx n).isSome = true) (s : List Bytes)
    (h520 : ∀ e ∈ s, e.length ≤ 520) (h1000 : s.length ≤ MAX_STACK_SIZE) :
    withinEngineLimits ctx (opsOf ctx h160 false n) s 0 = true := by
  have hw : (s.all fun e => decide (e.length ≤ 520)) = true := by
    rw [List.all_eq_true]; intro e he; simpa using h520 e he
  unfold withinEngineLimits
  rw [hw]
  cases ctx with
  | tapscript => simpa using h1000
  | p2wsh =>
    obtain ⟨o, ho⟩ := Option.isSome_iff_exists.mp hops
    simp only [withinLimits, ho, Bool.and_eq_true, decide_eq_true_eq] at hlim
    have h1 : countNP (opsOf .p2wsh h160 false n) ≤ MAX_OPS_PER_SCRIPT := by
      rw [countNP_opsOf]; exact Nat.le_trans (static_le_maxOps _ n o ho) hlim.2.1
    have hv := hlim.1
    simp only [isValid, Bool.and_eq_true, decide_eq_true_eq] at hv
    have h2 : (ser (opsOf .p2wsh h160 false n)).length ≤ 10000 := by
      rw [ser_opsOf, ← scriptSize_eq_length .p2wsh h160 hh n false hshape]
      have : maxScriptSize .p2wsh = 3600 := rfl
      omega
    simp [h1, h2, h1000]

theorem accepts_of_sat (E : EvalEnv) (hsig0 : ∀ k, E.sigOK k [] = false) (ctx : Ctx)
    (h160 : Bytes → Bytes) (hH : ∀ k, E.hashF .hash160 k = h160 k)
    (hh : ∀ b, (h160 b).length = 20) (n : Ms) (h : s1Typed ctx n = true)
    (hshape : shaped ctx n = true) (hB : (typeOf ctx n).B = true)
    (hlim : withinLimits ctx n = true) (hops : (maxOps ctx n).isSome = true)
    (s : List Bytes) (hs : Sat E n s) (h520 : ∀ e ∈ s, e.length ≤ 520)
    (h1000 : s.length ≤ MAX_STACK_SIZE) :
    accepts E ctx (opsOf ctx h160 false n) s = true := by
  obtain ⟨bs, _, _⟩ := (sound_s1 E ctx h160 hsig0 hH n h).1 hB
  obtain ⟨v, hv, _, hrun⟩ := bs s [] [] [] rfl hs
  simp only [List.append_nil] at hrun
  unfold accepts
  rw [execCharge_noCms E _ _ (hasCms_opsOf ctx h160 n false (inS1_of_s1Typed ctx n h)),
    engineLimits_of_withinLimits ctx h160 hh n (inS1_of_s1Typed ctx n h) hshape hlim hops s h520 h1000, hrun]
  simp [truthy_cast hv]

theorem rejects_of_dsat (E : EvalEnv) (hsig0 : ∀ k, E.sigOK k [] = false) (ctx : Ctx)
    (h160 : Bytes → Bytes) (hH : ∀ k, E.hashF .hash160 k = h160 k) (n : Ms)
    (h : s1Typed ctx n = true) (hB : (typeOf ctx n).B = true) (s : List Bytes) (hs : Dsat E n s) :
    accepts E ctx (opsOf ctx h160 false n) s = false := by
  obtain ⟨_, bd, _⟩ := (sound_s1 E ctx h160 hsig0 hH n h).1 hB
  have hrun := bd s [] [] [] rfl hs
  simp only [List.append_nil] at hrun
  unfold accepts
  rw [hrun]
  simp [castToBool]

end Btc.Miniscript
