import Proofs.C15.SoundAll
import Proofs.C15.OpsCount
import Proofs.C15.Size
/-!
C15 — a satisfaction of a covered expression is ACCEPTED: the run of T3 plus the interpreter's
limits (`accepts`), under `is_within_resource_limits`.
-/
namespace Btc.Miniscript
open Btc Gen.Miniscript

theorem static_le_maxOps (ctx : Ctx) (n : Ms) (o : Nat) (h : maxOps ctx n = some o) :
    (info ctx n).staticOps ≤ o := by
  unfold maxOps at h
  cases hs : (info ctx n).ops.sat with
  | none => rw [hs] at h; simp [addO] at h
  | some k => rw [hs] at h; simp [addO] at h; omega

theorem hasCms_append (a b : List Op) : hasCms (a ++ b) = (hasCms a || hasCms b) := by
  simp [hasCms, List.any_append]
theorem hasCms_cons (o : Op) (os : List Op) : hasCms (o :: os) = (o.isCms || hasCms os) := by
  simp [hasCms]
theorem hasCms_nil : hasCms [] = false := rfl

/-- a run without OP_CHECKMULTISIG charges nothing beyond the static count. -/
theorem execCharge_noCms (E : EvalEnv) : ∀ (ops : List Op) (s : St), hasCms ops = false →
    execCharge E ops s = 0
  | [], _, _ => rfl
  | o :: os, s, h => by
    rw [hasCms_cons, Bool.or_eq_false_iff] at h
    simp only [execCharge, h.1, Bool.and_false, Bool.false_eq_true, if_false, Nat.zero_add]
    cases step E o s with
    | none => rfl
    | some s' => exact execCharge_noCms E os s' h.2

theorem execCharge_append (E : EvalEnv) : ∀ (a b : List Op) (s : St),
    execCharge E (a ++ b) s = execCharge E a s +
      (match exec E a s with
       | some s' => execCharge E b s'
       | none => 0)
  | [], b, s => by simp [execCharge, exec]
  | o :: os, b, s => by
    simp only [List.cons_append, execCharge, exec]
    cases step E o s with
    | none => simp
    | some s' =>
      simp only [Option.bind_some]
      rw [execCharge_append E os b s']
      omega

/-- whatever the state, the run charges at most `m` keys. -/
def ChargeLe (E : EvalEnv) (ops : List Op) (m : Nat) : Prop := ∀ s, execCharge E ops s ≤ m

theorem cl_app {E : EvalEnv} {a b : List Op} {m1 m2 : Nat} (ha : ChargeLe E a m1)
    (hb : ChargeLe E b m2) : ChargeLe E (a ++ b) (m1 + m2) := by
  intro s
  rw [execCharge_append]
  have h1 := ha s
  cases exec E a s with
  | none => simp only []; omega
  | some s' => have h2 := hb s'; simp only []; omega

theorem cl_nc {E : EvalEnv} (ops : List Op) (h : hasCms ops = false) : ChargeLe E ops 0 :=
  fun s => Nat.le_of_eq (execCharge_noCms E ops s h)

theorem cl_mono {E : EvalEnv} {ops : List Op} {m m' : Nat} (h : ChargeLe E ops m) (hm : m ≤ m') :
    ChargeLe E ops m' := fun s => Nat.le_trans (h s) hm

theorem hasCms_map_push (keys : List Key) : hasCms (keys.map .push) = false := by
  simp [hasCms, Op.isCms]

theorem hasCms_multiA (keys : List Key) : hasCms (multiAOps keys) = false := by
  cases keys with
  | nil => rfl
  | cons k ks => simp [multiAOps, hasCms, Op.isCms]

/-- `<n> OP_CHECKMULTISIG(VERIFY)` charges at most the `n` it has just pushed. -/
theorem cl_cms (E : EvalEnv) (n : Nat) (o : Op) (ho : o.isControl = false) :
    ChargeLe E [.pushnum n, o] n := by
  intro s
  obtain ⟨st, al, cs⟩ := s
  have e : (Op.pushnum n).isCms = false := rfl
  simp only [execCharge, e, Bool.and_false, Bool.false_eq_true, if_false, Nat.zero_add]
  by_cases hc : executing cs = true
  · rw [step_run' E (.pushnum n) st al cs rfl hc]
    simp only [stepExec, hc, Bool.true_and]
    have hk : cmsKeys ⟨encodeNum n :: st, al, cs⟩ ≤ n := by
      simp only [cmsKeys]
      cases hv : numVal (encodeNum n) with
      | none => simp
      | some x =>
        simp only []
        unfold numVal at hv
        split at hv
        · cases hv
          unfold encodeNum
          rw [Btc.Script.decodeNum_encodeNumRaw]
          simp
        · cases hv
    cases step E o ⟨encodeNum n :: st, al, cs⟩ <;> cases o.isCms <;> simp <;> omega
  · have hc' : executing cs = false := by simpa using hc
    rw [step_skip' E (.pushnum n) st al cs rfl hc']
    simp only [hc', Bool.false_and, Bool.false_eq_true, if_false, Nat.zero_add]
    cases step E o ⟨st, al, cs⟩ <;> simp [execCharge]

mutual
/-- the keys of every `multi()` of the expression. -/
def multiKeys : Ms → Nat
  | .multi _ keys => keys.length
  | .wrap _ x => multiKeys x
  | .bin _ x y => multiKeys x + multiKeys y
  | .andor x y z => multiKeys x + multiKeys y + multiKeys z
  | .thresh _ x xs => multiKeys x + multiKeysL xs
  | _ => 0
def multiKeysL : MsL → Nat
  | .nil => 0
  | .cons x xs => multiKeys x + multiKeysL xs
end

mutual
/-- STATIC bound on the keys an execution is charged: those of every `multi()` in the script,
    whatever the initial state (the executed ones are a subset). -/
theorem charge_le (E : EvalEnv) (ctx : Ctx) (h160 : Bytes → Bytes) :
    ∀ (n : Ms) (v : Bool), ChargeLe E (opsOf ctx h160 v n) (multiKeys n)
  | .f0, _ | .f1, _ | .pk_k _, _ | .pk_h _, _ | .older _, _ | .after _, _ =>
    cl_nc _ (by simp [opsOf, hasCms_cons, hasCms_nil, Op.isCms])
  | .hash _ _, v => cl_nc _ (by cases v <;> simp [opsOf, hasCms_cons, hasCms_nil, Op.isCms])
  | .multi k keys, v => by
    have h1 : ChargeLe E ([.pushnum k] ++ keys.map .push) 0 :=
      cl_nc _ (by simp [hasCms_append, hasCms_cons, hasCms_nil, hasCms_map_push, Op.isCms])
    have h2 : ChargeLe E [.pushnum keys.length, if v then .checkmultisigverify else .checkmultisig]
        keys.length := cl_cms E _ _ (by cases v <;> rfl)
    have := cl_app h1 h2
    simp only [opsOf, multiKeys]
    simpa using this
  | .multi_a k keys, v =>
    cl_nc _ (by cases v <;> simp [opsOf, hasCms_append, hasCms_cons, hasCms_nil, hasCms_multiA, Op.isCms])
  | .wrap w x, v => by
    have H := fun b => charge_le E ctx h160 x b
    have one : ∀ o : Op, o.isCms = false → ChargeLe E [o] 0 := fun o h =>
      cl_nc _ (by simp [hasCms_cons, hasCms_nil, h])
    simp only [multiKeys]
    cases w
    · exact cl_mono (cl_app (cl_app (one .toalt rfl) (H false)) (one .fromalt rfl)) (by omega)
    · exact cl_mono (cl_app (one .swap rfl) (H v)) (by omega)
    · exact cl_mono (cl_app (H false) (one _ (by cases v <;> rfl))) (by omega)
    · exact cl_mono (cl_app (cl_app (cl_nc [.dup, .opif] rfl) (H false)) (one .endif rfl)) (by omega)
    · simp only [opsOf]
      split
      · exact cl_mono (cl_app (H true) (one .verify rfl)) (by omega)
      · exact cl_mono (cl_app (H true) (cl_nc [] rfl)) (by omega)
    · exact cl_mono (cl_app (cl_app (cl_nc [.size, .zeronotequal, .opif] rfl) (H false))
        (one .endif rfl)) (by omega)
    · exact cl_mono (cl_app (H false) (one .zeronotequal rfl)) (by omega)
  | .bin b x y, v => by
    have Hx := fun b => charge_le E ctx h160 x b
    have Hy := fun b => charge_le E ctx h160 y b
    have one : ∀ o : Op, o.isCms = false → ChargeLe E [o] 0 := fun o h =>
      cl_nc _ (by simp [hasCms_cons, hasCms_nil, h])
    simp only [multiKeys]
    cases b
    · exact cl_app (Hx false) (Hy v)
    · exact cl_mono (cl_app (cl_app (Hx false) (Hy false)) (one .booland rfl)) (by omega)
    · exact cl_mono (cl_app (cl_app (Hx false) (Hy false)) (one .boolor rfl)) (by omega)
    · exact cl_mono (cl_app (cl_app (cl_app (Hx false) (one .notif rfl)) (Hy false)) (one .endif rfl))
        (by omega)
    · exact cl_mono (cl_app (cl_app (cl_app (Hx false) (cl_nc [.ifdup, .notif] rfl)) (Hy false))
        (one .endif rfl)) (by omega)
    · exact cl_mono (cl_app (cl_app (cl_app (cl_app (one .opif rfl) (Hx false)) (one .opelse rfl))
        (Hy false)) (one .endif rfl)) (by omega)
  | .andor x y z, _ => by
    have one : ∀ o : Op, o.isCms = false → ChargeLe E [o] 0 := fun o h =>
      cl_nc _ (by simp [hasCms_cons, hasCms_nil, h])
    simp only [multiKeys]
    exact cl_mono (cl_app (cl_app (cl_app (cl_app (cl_app (charge_le E ctx h160 x false) (one .notif rfl))
      (charge_le E ctx h160 z false)) (one .opelse rfl)) (charge_le E ctx h160 y false))
      (one .endif rfl)) (by omega)
  | .thresh k x xs, v => by
    simp only [multiKeys, opsOf]
    exact cl_mono (cl_app (cl_app (charge_le E ctx h160 x false) (charge_leL E ctx h160 xs))
      (cl_nc _ (by cases v <;> simp [hasCms_cons, hasCms_nil, Op.isCms]))) (by omega)
theorem charge_leL (E : EvalEnv) (ctx : Ctx) (h160 : Bytes → Bytes) :
    ∀ (xs : MsL), ChargeLe E (opsRest ctx h160 xs) (multiKeysL xs)
  | .nil => cl_nc _ rfl
  | .cons x xs => by
    simp only [multiKeysL, opsRest]
    exact cl_mono (cl_app (cl_app (charge_le E ctx h160 x false)
      (cl_nc [.add] rfl)) (charge_leL E ctx h160 xs)) (by omega)
end

/-- P2WSH: the op codes above OP_16 of the script plus the keys of EVERY `multi()` in it are within
    the 201-op limit.  (What `is_within_resource_limits` bounds is the worst EXECUTED path; the two
    agree unless `multi()`s sit in different branches of an `or_i`/`andor`/`or_c`/`or_d`.) -/
def opsStaticOK (ctx : Ctx) (n : Ms) : Bool :=
  ctx == .tapscript || decide ((info ctx n).staticOps + multiKeys n ≤ MAX_OPS_PER_SCRIPT)

theorem engineLimits_of_withinLimits (E : EvalEnv) (ctx : Ctx) (h160 : Bytes → Bytes)
    (hh : ∀ b, (h160 b).length = 20) (n : Ms) (hshape : shaped ctx n = true)
    (hlim : withinLimits ctx n = true) (hst : opsStaticOK ctx n = true) (s : List Bytes)
    (h520 : ∀ e ∈ s, e.length ≤ 520) (h1000 : s.length ≤ MAX_STACK_SIZE) (st : St) :
    withinEngineLimits ctx (opsOf ctx h160 false n) s (execCharge E (opsOf ctx h160 false n) st) = true := by
  have hw : (s.all fun e => decide (e.length ≤ 520)) = true := by
    rw [List.all_eq_true]; intro e he; simpa using h520 e he
  unfold withinEngineLimits
  rw [hw]
  cases ctx with
  | tapscript => simpa using h1000
  | p2wsh =>
    simp only [opsStaticOK, Bool.or_eq_true, decide_eq_true_eq] at hst
    have hst' : (info .p2wsh n).staticOps + multiKeys n ≤ MAX_OPS_PER_SCRIPT := by
      rcases hst with h | h
      · cases h
      · exact h
    have hch := charge_le E .p2wsh h160 n false st
    have h1 : countNP (opsOf .p2wsh h160 false n) + execCharge E (opsOf .p2wsh h160 false n) st
        ≤ MAX_OPS_PER_SCRIPT := by
      rw [countNP_opsOf]; omega
    simp only [withinLimits, Bool.and_eq_true] at hlim
    have hv := hlim.1
    simp only [isValid, Bool.and_eq_true, decide_eq_true_eq] at hv
    have h2 : (ser (opsOf .p2wsh h160 false n)).length ≤ 10000 := by
      rw [ser_opsOf, ← scriptSize_eq_length .p2wsh h160 hh n false hshape]
      have : maxScriptSize .p2wsh = 3600 := rfl
      omega
    simp [h1, h2, h1000]

theorem accepts_of_sat (E : EvalEnv) (hsig0 : ∀ k, E.sigOK k [] = false) (ctx : Ctx)
    (h160 : Bytes → Bytes) (hH : ∀ k, E.hashF .hash160 k = h160 k)
    (hh : ∀ b, (h160 b).length = 20) (n : Ms) (h : s1Typed ctx n = true)
    (hshape : shaped ctx n = true) (hB : (typeOf ctx n).B = true)
    (hlim : withinLimits ctx n = true) (hst : opsStaticOK ctx n = true)
    (s : List Bytes) (hs : Sat E n s) (h520 : ∀ e ∈ s, e.length ≤ 520)
    (h1000 : s.length ≤ MAX_STACK_SIZE) :
    accepts E ctx (opsOf ctx h160 false n) s = true := by
  obtain ⟨bs, _, _⟩ := (sound_s1 E ctx h160 hsig0 hH n h).1 hB
  obtain ⟨v, hv, _, hrun⟩ := bs s [] [] [] rfl hs
  simp only [List.append_nil] at hrun
  unfold accepts
  rw [engineLimits_of_withinLimits E ctx h160 hh n hshape hlim hst s h520 h1000, hrun]
  simp [truthy_cast hv]

theorem rejects_of_dsat (E : EvalEnv) (hsig0 : ∀ k, E.sigOK k [] = false) (ctx : Ctx)
    (h160 : Bytes → Bytes) (hH : ∀ k, E.hashF .hash160 k = h160 k) (n : Ms)
    (h : s1Typed ctx n = true) (hB : (typeOf ctx n).B = true) (s : List Bytes) (hs : Dsat E n s) :
    accepts E ctx (opsOf ctx h160 false n) s = false := by
  obtain ⟨_, bd, _⟩ := (sound_s1 E ctx h160 hsig0 hH n h).1 hB
  have hrun := bd s [] [] [] rfl hs
  simp only [List.append_nil] at hrun
  unfold accepts
  rw [hrun]
  simp [castToBool]

end Btc.Miniscript
