import Proofs.C15.Sound
import Proofs.C15.OpsCount
import Proofs.C15.Size
/-!
C15 — a satisfaction of a covered expression is ACCEPTED: the run of T3 plus the interpreter's
limits (`accepts`), under `is_within_resource_limits`.
-/
namespace Btc.Miniscript
open Btc Gen.Miniscript

theorem static_le_maxOps (ctx : Ctx) (n : Ms) (o : Nat) (h : maxOps ctx n = some o) :
    (info ctx n).staticOps ≤ o := by
  unfold maxOps at h
  cases hs : (info ctx n).ops.sat with
  | none => rw [hs] at h; simp [addO] at h
  | some k => rw [hs] at h; simp [addO] at h; omega

theorem engineLimits_of_withinLimits (ctx : Ctx) (h160 : Bytes → Bytes)
    (hh : ∀ b, (h160 b).length = 20) (n : Ms) (hshape : shaped ctx n = true)
    (hlim : withinLimits ctx n = true) (hops : (maxOps ctx n).isSome = true) (s : List Bytes)
    (h520 : ∀ e ∈ s, e.length ≤ 520) (h1000 : s.length ≤ MAX_STACK_SIZE) :
    withinEngineLimits ctx (opsOf ctx h160 false n) s = true := by
  have hw : (s.all fun e => decide (e.length ≤ 520)) = true := by
    rw [List.all_eq_true]; intro e he; simpa using h520 e he
  unfold withinEngineLimits
  rw [hw]
  cases ctx with
  | tapscript => simpa using h1000
  | p2wsh =>
    obtain ⟨o, ho⟩ := Option.isSome_iff_exists.mp hops
    simp only [withinLimits, ho, Bool.and_eq_true, decide_eq_true_eq] at hlim
    have h1 : countNP (opsOf .p2wsh h160 false n) ≤ MAX_OPS_PER_SCRIPT := by
      rw [countNP_opsOf]; exact Nat.le_trans (static_le_maxOps _ n o ho) hlim.2.1
    have hv := hlim.1
    simp only [isValid, Bool.and_eq_true, decide_eq_true_eq] at hv
    have h2 : (ser (opsOf .p2wsh h160 false n)).length ≤ 10000 := by
      rw [ser_opsOf, ← scriptSize_eq_length .p2wsh h160 hh n false hshape]
      have : maxScriptSize .p2wsh = 3600 := rfl
      omega
    simp [h1, h2, h1000]

theorem accepts_of_sat (E : EvalEnv) (hsig0 : ∀ k, E.sigOK k [] = false) (ctx : Ctx)
    (h160 : Bytes → Bytes) (hH : ∀ k, E.hashF .hash160 k = h160 k)
    (hh : ∀ b, (h160 b).length = 20) (n : Ms) (h : s1Typed ctx n = true)
    (hshape : shaped ctx n = true) (hB : (typeOf ctx n).B = true)
    (hlim : withinLimits ctx n = true) (hops : (maxOps ctx n).isSome = true)
    (s : List Bytes) (hs : Sat E n s) (h520 : ∀ e ∈ s, e.length ≤ 520)
    (h1000 : s.length ≤ MAX_STACK_SIZE) :
    accepts E ctx (opsOf ctx h160 false n) s = true := by
  obtain ⟨bs, _, _⟩ := (sound_s1 E ctx h160 hsig0 hH n h).1 hB
  obtain ⟨v, hv, _, hrun⟩ := bs s [] [] [] rfl hs
  simp only [List.append_nil] at hrun
  unfold accepts
  rw [engineLimits_of_withinLimits ctx h160 hh n hshape hlim hops s h520 h1000, hrun]
  simp [truthy_cast hv]

theorem rejects_of_dsat (E : EvalEnv) (hsig0 : ∀ k, E.sigOK k [] = false) (ctx : Ctx)
    (h160 : Bytes → Bytes) (hH : ∀ k, E.hashF .hash160 k = h160 k) (n : Ms)
    (h : s1Typed ctx n = true) (hB : (typeOf ctx n).B = true) (s : List Bytes) (hs : Dsat E n s) :
    accepts E ctx (opsOf ctx h160 false n) s = false := by
  obtain ⟨_, bd, _⟩ := (sound_s1 E ctx h160 hsig0 hH n h).1 hB
  have hrun := bd s [] [] [] rfl hs
  simp only [List.append_nil] at hrun
  unfold accepts
  rw [hrun]
  simp [castToBool]

end Btc.Miniscript
