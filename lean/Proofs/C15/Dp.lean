import Model.C15.Satisfy
/-!
C15 — the `reached[j]` recurrences (`dpStep`) preserve invariants indexed by `j`: the index lemma
the quorum proofs (satisfier's choice, element sizes, bounds) rest on.
-/
namespace Btc.Miniscript

/-- entry `i + t` of the list (counting from `i`) satisfies `P (i + t)`. -/
def AllIdx {α : Type} (P : Nat → α → Prop) : Nat → List α → Prop
  | _, [] => True
  | i, x :: r => P i x ∧ AllIdx P (i + 1) r

section
variable {α : Type} (P Q : Nat → α → Prop) (first : α → α) (mid : α → α → α) (last : α → α)

theorem dpGo_idx (hmid : ∀ i p c, P i p → P (i + 1) c → Q (i + 1) (mid p c))
    (hlast : ∀ i l, P i l → Q (i + 1) (last l)) :
    ∀ (i : Nat) (prev : α) (rest : List α), P i prev → AllIdx P (i + 1) rest →
      AllIdx Q (i + 1) (dpGo mid last prev rest)
  | i, prev, [], hp, _ => ⟨hlast i prev hp, trivial⟩
  | i, prev, cur :: rest, hp, h =>
    ⟨hmid i prev cur hp h.1, dpGo_idx hmid hlast (i + 1) cur rest h.1 h.2⟩

/-- one turn of a `reached` loop: `following[0] = first reached[0]`,
    `following[j] = mid reached[j-1] reached[j]`, `following[len] = last reached[-1]`. -/
theorem dpStep_idx (hfirst : ∀ a, P 0 a → Q 0 (first a))
    (hmid : ∀ i p c, P i p → P (i + 1) c → Q (i + 1) (mid p c))
    (hlast : ∀ i l, P i l → Q (i + 1) (last l)) :
    ∀ (r : List α), AllIdx P 0 r → AllIdx Q 0 (dpStep first mid last r)
  | [], _ => trivial
  | r0 :: rest, h => ⟨hfirst r0 h.1, dpGo_idx P Q mid last hmid hlast 0 r0 rest h.1 h.2⟩
end

theorem AllIdx_getD {α : Type} (P : Nat → α → Prop) (d : α) (hd : ∀ j, P j d) :
    ∀ (i : Nat) (r : List α) (j : Nat), AllIdx P i r → P (i + j) (r.getD j d)
  | i, [], j, _ => by simpa using hd (i + j)
  | i, x :: r, 0, h => by simpa using h.1
  | i, x :: r, j + 1, h => by
    have := AllIdx_getD P d hd (i + 1) r j h.2
    have e : i + 1 + j = i + (j + 1) := by omega
    rw [e] at this
    simpa using this

theorem AllIdx_mono {α : Type} {P Q : Nat → α → Prop} (h : ∀ i a, P i a → Q i a) :
    ∀ (i : Nat) (r : List α), AllIdx P i r → AllIdx Q i r
  | _, [], _ => trivial
  | i, x :: r, hr => ⟨h i x hr.1, AllIdx_mono h (i + 1) r hr.2⟩

end Btc.Miniscript
