import Model.C15.Eval
import Proofs.C08.Num
/-!
C15 — what the evaluator needs of script numbers, from C08's number model.
-/
namespace Btc.Miniscript
open Btc Btc.Script

theorem encodeNum_length_le (n : Nat) (h : n < 2 ^ 31) : (encodeNum n).length ≤ 4 := by
  unfold encodeNum encodeNumRaw
  by_cases h0 : (n : Int) = 0
  · simp [h0]
  · have hn : 0 < n := by omega
    obtain ⟨k, hk, _, hlow⟩ := encode_size' n hn
    simp only [h0, if_false, Int.natAbs_natCast, leBytes_length, hk]
    rcases hlow with rfl | hlow
    · omega
    · have e : (128 * 256 ^ 3 : Nat) = 2 ^ 31 := by decide
      have : k - 1 < 3 := pow256_lt_of (k - 1) 3 n hlow (by omega)
      omega

theorem castToBool_false_decode : ∀ (b : Bytes), castToBool b = false → decodeNum b = 0
  | [], _ => by simp [decodeNum]
  | [x], h => by
    simp only [castToBool, Bool.and_eq_false_iff, bne_eq_false_iff_eq] at h
    rcases h with rfl | rfl
    · decide
    · decide
  | x :: y :: r, h => by
    simp only [castToBool, Bool.or_eq_false_iff, bne_eq_false_iff_eq] at h
    obtain ⟨rfl, h2⟩ := h
    have ih := castToBool_false_decode (y :: r) h2
    have hl : lastByte (0 :: y :: r) = lastByte (y :: r) := rfl
    have ho : ofLE (0 :: y :: r) = 256 * ofLE (y :: r) := by simp [ofLE]
    have hp : 2 ^ ((0 :: y :: r : Bytes).length * 8 - 1) = 256 * 2 ^ ((y :: r : Bytes).length * 8 - 1) := by
      have : (0 :: y :: r : Bytes).length * 8 - 1 = 8 + ((y :: r : Bytes).length * 8 - 1) := by
        simp [List.length_cons]; omega
      rw [this, Nat.pow_add]
    have e1 : ¬ ((y :: r : Bytes).length = 0) := by simp
    have e2 : ¬ ((0 :: y :: r : Bytes).length = 0) := by simp
    unfold decodeNum at ih ⊢
    rw [if_neg e1] at ih
    rw [if_neg e2, hl, ho, hp]
    by_cases hge : (lastByte (y :: r)).toNat ≥ 128
    · simp only [hge, if_true] at ih ⊢
      rw [Nat.mul_mod_mul_left]
      have : ofLE (y :: r) % 2 ^ ((y :: r : Bytes).length * 8 - 1) = 0 := by omega
      rw [this]; simp
    · simp only [hge, if_false] at ih ⊢
      have : ofLE (y :: r) = 0 := by omega
      rw [this]; simp

/-- a positive number's encoding is true. -/
theorem castToBool_encodeNum (n : Nat) (h : 0 < n) : castToBool (encodeNum n) = true := by
  cases hc : castToBool (encodeNum n) with
  | true => rfl
  | false =>
    have := castToBool_false_decode _ hc
    rw [encodeNum, decodeNum_encodeNumRaw] at this
    omega

end Btc.Miniscript
