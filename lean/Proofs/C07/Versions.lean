import Model.C07.Instance
import Proofs.C07.Fold
/-
C07 helper lemmas, part 5: the xprv/xpub version tables regenerated from `btclib/network.py`
(`Gen.Bip32`), closed by `decide`; the sizes of the executable instance.
-/
namespace Btc.Bip32
open Btc Gen.Bip32

theorem pairs_fst_nodup : (VERSION_PAIRS.map (·.1)).Nodup := by decide
theorem pairs_snd_nodup : (VERSION_PAIRS.map (·.2)).Nodup := by decide
theorem pairs_fst_prv : ∀ r ∈ VERSION_PAIRS, r.1 ∈ XPRV_VERSIONS_ALL ∧ r.2 ∈ XPUB_VERSIONS_ALL := by decide
theorem prv_all_paired : ∀ v ∈ XPRV_VERSIONS_ALL, ∃ w ∈ XPUB_VERSIONS_ALL, pubVersion v = some w := by decide
theorem pub_all_paired : ∀ w ∈ XPUB_VERSIONS_ALL, ∃ v ∈ XPRV_VERSIONS_ALL, pubVersion v = some w := by decide
theorem pub_injective : ∀ v ∈ XPRV_VERSIONS_ALL, ∀ v' ∈ XPRV_VERSIONS_ALL, pubVersion v = pubVersion v' → v = v' := by
  decide
theorem prv_pub_disjoint : ∀ v ∈ XPRV_VERSIONS_ALL, v ∉ XPUB_VERSIONS_ALL := by decide
theorem versions_four_bytes : ∀ v ∈ XPRV_VERSIONS_ALL ++ XPUB_VERSIONS_ALL, v.length = 4 := by decide

theorem pubVersion_isSome_iff (v : Bytes) : (pubVersion v).isSome ↔ v ∈ XPRV_VERSIONS_ALL := by
  constructor
  · intro h
    unfold pubVersion at h
    rw [Option.isSome_map, List.find?_isSome] at h
    obtain ⟨r, hr, hv⟩ := h
    have := (pairs_fst_prv r hr).1
    simp only [beq_iff_eq] at hv
    rw [← hv]; exact this
  · intro h
    obtain ⟨w, _, hw⟩ := prv_all_paired v h
    rw [hw]; rfl

/-- per network, position by position, the xprv version is paired with the xpub version of the same kind -/
theorem network_pairing : ∀ net ∈ NETWORK_VERSIONS,
    net.xprv.map pubVersion = net.xpub.map some ∧ net.xprv.length = 5 := by decide

/-- a version never belongs to a mainnet and to a test network -/
theorem network_type_separated : ∀ a ∈ NETWORK_VERSIONS, ∀ b ∈ NETWORK_VERSIONS, a.isMain ≠ b.isMain →
    ∀ v ∈ a.xprv ++ a.xpub, v ∉ b.xprv ++ b.xpub := by decide

/-- every catalogued version is some network's, and every network's version is catalogued -/
theorem network_versions_catalogued :
    (∀ net ∈ NETWORK_VERSIONS, (∀ v ∈ net.xprv, v ∈ XPRV_VERSIONS_ALL) ∧ (∀ v ∈ net.xpub, v ∈ XPUB_VERSIONS_ALL)) ∧
    (∀ v ∈ XPRV_VERSIONS_ALL, ∃ net ∈ NETWORK_VERSIONS, v ∈ net.xprv) ∧
    (∀ v ∈ XPUB_VERSIONS_ALL, ∃ net ∈ NETWORK_VERSIONS, v ∈ net.xpub) := by decide

/-- the bound `_N_BYTES` of bip32.py is the order of the curve the model runs on -/
theorem secp_n_eq (mac : Bytes → Bytes → Bytes) : nN (secpEnv mac) = Gen.Bip32.N := by
  show (EC.ops EC.secp256k1).n.toNat = Gen.Bip32.N
  decide

/-- and the sizes fit 32 bytes -/
theorem secp_bounds (mac : Bytes → Bytes → Bytes) : Bounds (secpEnv mac) := by
  refine ⟨?_, ?_, ?_⟩
  · rw [secp_n_eq]; decide
  · rw [secp_n_eq]; decide
  · show (EC.ops EC.secp256k1).p ≤ 2 ^ 256
    decide

theorem constants : HARDENED = 2 ^ 31 ∧ MAX_DEPTH = 255 ∧ Gen.Bip32.VALID_MAX_DEPTH = 255 ∧
    Gen.Bip32.PATH_STR_MAX_LEN = 255 ∧ Gen.Bip32.VALID_MAX_INDEX = 2 ^ 32 - 1 ∧
    Gen.Bip32.PATH_MAX_INDEX = 2 ^ 32 - 1 ∧ Gen.Bip32.SEED_MIN_BITS = 128 ∧ Gen.Bip32.SEED_MAX_BITS = 512 := by
  decide

end Btc.Bip32
