import Proofs.C07.Group
/-
C07 helper lemmas, part 3: btclib's `_derive` shape (`deriveB`) against the BIP fold, for private
and public keys; path-level neuter commutation.
-/
namespace Btc.Bip32
open Btc

variable {α : Type} {E : Env α}

theorem nil_or_snoc (p : List Nat) : p = [] ∨ ∃ q i, p = q ++ [i] := by
  rcases List.eq_nil_or_concat p with h | ⟨q, i, h⟩
  · exact Or.inl h
  · exact Or.inr ⟨q, i, by simpa using h⟩

/-! ### unfolding `deriveB` -/

def w0 (x : XKey) (final : Nat) : Working :=
  { version := x.version, depth := final, parentFp := x.parentFp, index := x.index, chain := x.chain,
    key := x.key, prvKeyInt := if x.isPrivate then x.prvInt else 0 }

theorem deriveB_nil (x : XKey) :
    deriveB E x [] none = if x.depth > MAX_DEPTH then .error .depth else .ok x := by
  unfold deriveB deriveWalk forceStage
  simp [Except.bind, Working.toXKey]

theorem deriveB_concat (x : XKey) (p : List Nat) (i : Nat) :
    deriveB E x (p ++ [i]) none =
      if x.depth + (p.length + 1) > MAX_DEPTH then .error .depth else
      ((if x.isPrivate then prvPathB E (w0 x (x.depth + (p.length + 1))) p i
        else pubPathB E (w0 x (x.depth + (p.length + 1))) p i).map
        fun (w' : Working) => Working.toXKey { w' with index := i }) := by
  unfold deriveB deriveWalk forceStage
  simp [Except.bind, w0]

/-! ### private keys -/

theorem simPrv_w0 (x : XKey) (d : Nat) (hp : x.isPrivate = true) : SimPrv (w0 x d) x :=
  ⟨rfl, rfl, rfl, by simp [w0, hp], hp⟩

theorem simPrv_sync {w : Working} {x y : XKey} {p : List Nat} (S : SimPrv w x)
    (h : deriveFold' E x p = .ok y) : SimPrv (w.sync y) y := by
  have hf := deriveFold'_fields E x y p h
  exact ⟨by simp [Working.sync, S.version, hf.2.1], rfl, rfl, rfl, by rw [hf.2.2.1]; exact S.isPrv⟩

theorem deriveB_private (B : Bounds E) (x : XKey) (p : List Nat) (hp : x.isPrivate = true)
    (hd : x.depth + p.length ≤ MAX_DEPTH) : deriveB E x p none = deriveFold' E x p := by
  rcases nil_or_snoc p with rfl | ⟨q, i, rfl⟩
  · rw [deriveB_nil]
    have hd' : x.depth ≤ MAX_DEPTH := by simpa using hd
    simp [deriveFold', Nat.not_lt.mpr hd']
  · replace hd : x.depth + (q.length + 1) ≤ MAX_DEPTH := by simpa using hd
    rw [deriveB_concat, if_neg (Nat.not_lt.mpr hd), if_pos hp, deriveFold'_append]
    unfold prvPathB
    have S := simPrv_w0 x (x.depth + (q.length + 1)) hp
    rw [walkPrv_sim B _ x q S]
    cases hq : deriveFold' E x q with
    | error e => rfl
    | ok y =>
      simp only [Except.map, Except.bind]
      have Sy := simPrv_sync S hq
      have hfy := deriveFold'_fields E x y q hq
      have S' : SimPrv { (w0 x (x.depth + (q.length + 1))).sync y with
          parentFp := fpOf E (pubOfPrv E ((w0 x (x.depth + (q.length + 1))).sync y).prvKeyInt) } y :=
        ⟨Sy.version, Sy.chain, Sy.key, Sy.prv, Sy.isPrv⟩
      rw [prvStepB_sim B _ y i _ (Or.inr (by simp [Working.sync])) S']
      have hck : ckd' E y i = ckdPriv E y i := by simp [ckd', Sy.isPrv]
      simp only [deriveFold', hck]
      cases hz : ckdPriv E y i with
      | error e => rfl
      | ok z =>
        have hfz := ckdPriv_fields E hz
        simp only [Except.map, Except.bind, Working.toXKey, Working.sync, w0]
        congr 1
        cases z
        simp_all
        omega

/-! ### public keys -/

section
variable {G : Type} [AddCommGroup G] (L : Lawful E.o G)
include L

/-- the working record + the point held by the tweak chain agree with the BIP-level key -/
structure SimPub (w : Working) (x : XKey) (Pc : α) : Prop where
  version : w.version = x.version
  chain : w.chain = x.chain
  key : w.key = x.key
  isPub : x.isPrivate = false
  parse : ∃ Q, parsePoint E x.key = some Q ∧ L.abs Q = L.abs Pc

theorem pubStep_sim (B : Bounds E) (w : Working) (x : XKey) (Pc : α) (i : Nat) (hi : i < HARDENED)
    (S : SimPub L w x Pc) :
    match ckdPub E x i with
    | .error e => pubStepB E (w, Pc) i = .error e
    | .ok y => ∃ Pc', pubStepB E (w, Pc) i = .ok ({ w with chain := y.chain, key := y.key }, Pc') ∧
        SimPub L { w with chain := y.chain, key := y.key } y Pc' := by
  obtain ⟨Q, hQ, hQa⟩ := S.parse
  unfold ckdPub pubStepB
  simp only [Nat.not_le.mpr hi, if_false, hQ, S.key, S.chain]
  generalize split E x.chain (x.key ++ beBytes 4 i) = hh
  unfold ckdPubWith pubStepWith
  simp only
  by_cases h1 : ofBE hh.1 ≥ nN E
  · simp [h1]
  · have habs : L.abs (E.o.add Q (E.o.mul ((ofBE hh.1 : Nat) : Int) E.o.gen)) =
        L.abs (E.o.add Pc (E.o.mul ((ofBE hh.1 : Nat) : Int) E.o.gen)) := by
      rw [L.abs_add, L.abs_add, hQa]
    have hzz : E.o.isZero (E.o.add Q (E.o.mul ((ofBE hh.1 : Nat) : Int) E.o.gen)) =
        E.o.isZero (E.o.add Pc (E.o.mul ((ofBE hh.1 : Nat) : Int) E.o.gen)) := by
      rw [Bool.eq_iff_iff, L.isZero_iff, L.isZero_iff, habs]
    simp only [h1, if_false, hzz]
    by_cases h2 : E.o.isZero (E.o.add Pc (E.o.mul ((ofBE hh.1 : Nat) : Int) E.o.gen)) = true
    · simp [h2]
    · simp only [h2, Bool.false_eq_true, if_false]
      have hnz : L.abs (E.o.add Pc (E.o.mul ((ofBE hh.1 : Nat) : Int) E.o.gen)) ≠ 0 := by
        intro h; exact h2 ((L.isZero_iff _).mpr h)
      have hser := serPoint_congr L _ _ habs (habs ▸ hnz)
      refine ⟨_, by rw [hser], ⟨S.version, rfl, rfl, ?_, ?_⟩⟩
      · exact serPoint_not_private E _ _ rfl
      · simp only [hser]
        exact parsePoint_serPoint L B _ hnz

theorem walkPub_sim (B : Bounds E) (p : List Nat) : ∀ (w : Working) (x : XKey) (Pc : α),
    (∀ i ∈ p, i < HARDENED) → SimPub L w x Pc →
    match deriveFold' E x p with
    | .error e => walkPub E (w, Pc) p = .error e
    | .ok y => ∃ Pc', walkPub E (w, Pc) p = .ok ({ w with chain := y.chain, key := y.key }, Pc') ∧
        SimPub L { w with chain := y.chain, key := y.key } y Pc' := by
  induction p with
  | nil =>
    intro w x Pc _ S
    simp only [deriveFold', walkPub]
    refine ⟨Pc, ?_, ?_⟩
    · cases w; simp [S.chain.symm, S.key.symm]
    · exact ⟨S.version, rfl, rfl, S.isPub, S.parse⟩
  | cons i p ih =>
    intro w x Pc hp S
    have hi : i < HARDENED := hp i (List.mem_cons_self ..)
    have hstep := pubStep_sim L B w x Pc i hi S
    have hck : ckd' E x i = ckdPub E x i := by simp [ckd', S.isPub]
    simp only [deriveFold', walkPub, hck]
    cases hc : ckdPub E x i with
    | error e =>
      rw [hc] at hstep
      simp only at hstep
      rw [hstep]; rfl
    | ok y =>
      rw [hc] at hstep
      obtain ⟨Pc', hs, S'⟩ := hstep
      rw [hs]
      simp only [Except.bind]
      have := ih _ y Pc' (fun j hj => hp j (List.mem_cons_of_mem _ hj)) S'
      cases hq : deriveFold' E y p with
      | error e => rw [hq] at this; exact this
      | ok z => rw [hq] at this; exact this

theorem deriveB_public (B : Bounds E) (x : XKey) (p : List Nat) (hpub : x.isPrivate = false)
    (hu : ∀ i ∈ p, i < HARDENED) (hd : x.depth + p.length ≤ MAX_DEPTH) :
    deriveB E x p none = deriveFold' E x p := by
  rcases nil_or_snoc p with rfl | ⟨q, i, rfl⟩
  · rw [deriveB_nil]
    have hd' : x.depth ≤ MAX_DEPTH := by simpa using hd
    simp [deriveFold', Nat.not_lt.mpr hd']
  · replace hd : x.depth + (q.length + 1) ≤ MAX_DEPTH := by simpa using hd
    have hnh : (q ++ [i]).any (· ≥ HARDENED) = false := by
      rw [List.any_eq_false]
      intro j hj
      have := hu j hj
      simp; omega
    have hi : i < HARDENED := hu i (by simp)
    rw [deriveB_concat, if_neg (Nat.not_lt.mpr hd), hpub]
    simp only [Bool.false_eq_true, if_false]
    unfold pubPathB
    simp only [hnh, Bool.false_eq_true, if_false]
    have hkey : (w0 x (x.depth + (q.length + 1))).key = x.key := rfl
    rw [hkey]
    cases hparse : parsePoint E x.key with
    | none =>
      -- both sides: the first step cannot parse the key
      have hbad : ∀ j, j < HARDENED → ckd' E x j = .error .badKey := by
        intro j hj
        simp [ckd', hpub, ckdPub, Nat.not_le.mpr hj, hparse]
      cases q with
      | nil => simp [deriveFold', hbad i hi, Except.map, Except.bind]
      | cons j q' =>
        have hj : j < HARDENED := hu j (by simp)
        simp [deriveFold', hbad j hj, Except.map, Except.bind]
    | some P =>
      have S : SimPub L (w0 x (x.depth + (q.length + 1))) x P := ⟨rfl, rfl, rfl, hpub, ⟨P, hparse, rfl⟩⟩
      have hw := walkPub_sim L B q _ x P (fun j hj => hu j (by simp [hj])) S
      rw [deriveFold'_append]
      cases hq : deriveFold' E x q with
      | error e =>
        rw [hq] at hw
        simp only at hw
        simp only [hw]; rfl
      | ok y =>
        rw [hq] at hw
        obtain ⟨Pc', hs, S'⟩ := hw
        simp only [hs, Except.bind]
        have hfy := deriveFold'_fields E x y q hq
        have S'' : SimPub L { ({ w0 x (x.depth + (q.length + 1)) with chain := y.chain, key := y.key } : Working) with
            parentFp := fpOf E y.key } y Pc' := ⟨S'.version, S'.chain, S'.key, S'.isPub, S'.parse⟩
        have hstep := pubStep_sim L B _ y Pc' i hi S''
        have hck : ckd' E y i = ckdPub E y i := by simp [ckd', S'.isPub]
        simp only [deriveFold', hck]
        cases hz : ckdPub E y i with
        | error e =>
          rw [hz] at hstep
          simp only at hstep
          simp only [hstep]; rfl
        | ok z =>
          rw [hz] at hstep
          obtain ⟨Pz, hsz, _⟩ := hstep
          have hfz := ckdPub_fields E hz
          simp only [w0] at hsz ⊢
          simp only [hsz, Except.map, Except.bind, Working.toXKey]
          congr 1
          obtain ⟨h1, h2, h3, _, h5, _⟩ := hfz
          cases z
          simp only at h1 h2 h3 h5 ⊢
          rw [h1, h2, h3, h5, hfy.1, hfy.2.1]
          simp [Nat.add_assoc]

end

end Btc.Bip32
