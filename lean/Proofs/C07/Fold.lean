import Model.C07.Bip32
import Proofs.Common.Bytes
import Mathlib.Tactic.SplitIfs
import Mathlib.Tactic.NormNum
/-
C07 helper lemmas, part 1 (core Lean only): algebra of the BIP fold (composition, depth), and the
refinement "btclib's private path walk = fold of CKDpriv".
-/
namespace Btc.Bip32
open Btc

variable {α : Type} (E : Env α)

/-! ### Except plumbing -/

theorem bind_ok' {ε β γ : Type} (a : β) (f : β → Except ε γ) : (Except.ok a : Except ε β).bind f = f a := rfl
theorem bind_error' {ε β γ : Type} (e : ε) (f : β → Except ε γ) : (Except.error e : Except ε β).bind f = .error e := rfl

theorem bind_assoc' {ε β γ δ : Type} (r : Except ε β) (f : β → Except ε γ) (g : γ → Except ε δ) :
    (r.bind f).bind g = r.bind fun a => (f a).bind g := by
  cases r <;> rfl

/-! ### composition -/

theorem deriveFold_append (x : XKey) (p q : List Nat) :
    deriveFold E x (p ++ q) = (deriveFold E x p).bind fun y => deriveFold E y q := by
  induction p generalizing x with
  | nil => rfl
  | cons i p ih =>
    simp only [List.cons_append, deriveFold, bind_assoc']
    congr 1
    funext y
    exact ih y

theorem deriveFold'_append (x : XKey) (p q : List Nat) :
    deriveFold' E x (p ++ q) = (deriveFold' E x p).bind fun y => deriveFold' E y q := by
  induction p generalizing x with
  | nil => rfl
  | cons i p ih =>
    simp only [List.cons_append, deriveFold', bind_assoc']
    congr 1
    funext y
    exact ih y

/-! ### what one step sets -/

theorem ckdPrivWith_fields {x y : XKey} {i : Nat} {pub : Bytes} {hh : Bytes × Bytes}
    (h : ckdPrivWith E x i pub hh = .ok y) :
    y.depth = x.depth + 1 ∧ y.index = i ∧ y.version = x.version ∧ y.isPrivate = true ∧
    y.parentFp = fpOf E pub ∧ y.chain = hh.2 ∧ ofBE hh.1 < nN E ∧
    (x.prvInt + ofBE hh.1) % nN E ≠ 0 ∧ y.key = 0 :: beBytes 32 ((x.prvInt + ofBE hh.1) % nN E) := by
  unfold ckdPrivWith at h
  simp only at h
  split at h
  · cases h
  · split at h
    · cases h
    · cases h
      refine ⟨rfl, rfl, rfl, by simp [XKey.isPrivate], rfl, rfl, by omega, by assumption, rfl⟩

theorem ckdPriv_fields {x y : XKey} {i : Nat} (h : ckdPriv E x i = .ok y) :
    y.depth = x.depth + 1 ∧ y.index = i ∧ y.version = x.version ∧ y.isPrivate = true ∧
    y.parentFp = fpOf E (pubOfPrv E x.prvInt) := by
  have := ckdPrivWith_fields E h
  exact ⟨this.1, this.2.1, this.2.2.1, this.2.2.2.1, this.2.2.2.2.1⟩

theorem serPoint_head (P : α) : (serPoint E P).head? = some 2 ∨ (serPoint E P).head? = some 3 := by
  unfold serPoint
  split <;> simp

theorem serPoint_ne_nil (P : α) : serPoint E P ≠ [] := by
  unfold serPoint; simp

theorem serPoint_not_private (P : α) (x : XKey) (h : x.key = serPoint E P) : x.isPrivate = false := by
  unfold XKey.isPrivate
  rw [h]
  rcases serPoint_head E P with h' | h' <;> rw [h'] <;> decide

theorem ckdPubWith_fields {x y : XKey} {i : Nat} {P : α} {hh : Bytes × Bytes}
    (h : ckdPubWith E x i P hh = .ok y) :
    y.depth = x.depth + 1 ∧ y.index = i ∧ y.version = x.version ∧ y.isPrivate = false ∧
    y.parentFp = fpOf E x.key ∧ y.chain = hh.2 ∧ ofBE hh.1 < nN E ∧
    E.o.isZero (E.o.add P (E.o.mul ((ofBE hh.1 : Nat) : Int) E.o.gen)) = false ∧
    y.key = serPoint E (E.o.add P (E.o.mul ((ofBE hh.1 : Nat) : Int) E.o.gen)) := by
  unfold ckdPubWith at h
  simp only at h
  split at h
  · cases h
  · split at h
    · cases h
    · cases h
      refine ⟨rfl, rfl, rfl, serPoint_not_private E _ _ rfl, rfl, rfl, by omega, by simp_all, rfl⟩

theorem ckdPub_fields {x y : XKey} {i : Nat} (h : ckdPub E x i = .ok y) :
    y.depth = x.depth + 1 ∧ y.index = i ∧ y.version = x.version ∧ y.isPrivate = false ∧
    y.parentFp = fpOf E x.key ∧ i < HARDENED := by
  unfold ckdPub at h
  split at h
  · cases h
  · split at h
    · cases h
    · have := ckdPubWith_fields E h
      exact ⟨this.1, this.2.1, this.2.2.1, this.2.2.2.1, this.2.2.2.2.1, by omega⟩

theorem ckd'_fields {x y : XKey} {i : Nat} (h : ckd' E x i = .ok y) :
    y.depth = x.depth + 1 ∧ y.index = i ∧ y.version = x.version ∧ y.isPrivate = x.isPrivate := by
  unfold ckd' at h
  split at h
  · have := ckdPriv_fields E h
    simp_all
  · have := ckdPub_fields E h
    simp_all

/-! ### the depth bound -/

theorem deriveFold_eq' (x : XKey) (p : List Nat) (hd : x.depth + p.length ≤ MAX_DEPTH) :
    deriveFold E x p = deriveFold' E x p := by
  induction p generalizing x with
  | nil => rfl
  | cons i p ih =>
    simp only [List.length_cons] at hd
    have h1 : ¬ x.depth ≥ MAX_DEPTH := by omega
    simp only [deriveFold, deriveFold', ckd, h1, if_false]
    cases hc : ckd' E x i with
    | error e => rfl
    | ok y =>
      simp only [bind_ok']
      have := (ckd'_fields E hc).1
      exact ih y (by omega)

theorem deriveFold_too_deep (x : XKey) (p : List Nat) (hx : x.depth ≤ MAX_DEPTH)
    (hd : x.depth + p.length > MAX_DEPTH) : ∃ e, deriveFold E x p = .error e := by
  induction p generalizing x with
  | nil => simp at hd; omega
  | cons i p ih =>
    simp only [List.length_cons] at hd
    simp only [deriveFold, ckd]
    split
    · exact ⟨_, rfl⟩
    · cases hc : ckd' E x i with
      | error e => exact ⟨e, rfl⟩
      | ok y =>
        have := (ckd'_fields E hc).1
        exact ih y (by omega) (by omega)

theorem deriveFold'_fields (x y : XKey) (p : List Nat) (h : deriveFold' E x p = .ok y) :
    y.depth = x.depth + p.length ∧ y.version = x.version ∧ y.isPrivate = x.isPrivate ∧
    (∀ i, p.getLast? = some i → y.index = i) := by
  induction p generalizing x with
  | nil => cases h; simp
  | cons i p ih =>
    simp only [deriveFold'] at h
    cases hc : ckd' E x i with
    | error e => rw [hc] at h; cases h
    | ok z =>
      rw [hc] at h
      have hz := ckd'_fields E hc
      have := ih z h
      refine ⟨by simp only [List.length_cons]; omega, by simp_all, by simp_all, ?_⟩
      intro j hj
      cases p with
      | nil =>
        cases h
        simp at hj
        omega
      | cons k p' =>
        rw [List.getLast?_cons_cons] at hj
        exact this.2.2.2 j hj

/-! ### private refinement: `walkPrv` is the fold of `ckdPriv` -/

/-- sizes the scalars live in -/
structure Bounds : Prop where
  n_pos : 0 < nN E
  n_le : nN E ≤ 2 ^ 256
  p_le : E.o.p ≤ 2 ^ 256

variable {E}

theorem prvInt_mk (B : Bounds E) (k : Nat) (hk : k < nN E) (x : XKey) (hx : x.key = 0 :: beBytes 32 k) :
    x.prvInt = k := by
  unfold XKey.prvInt
  rw [hx, List.tail_cons, ofBE_beBytes]
  have : (256 : Nat) ^ 32 = 2 ^ 256 := by norm_num
  rw [this]
  exact Nat.mod_eq_of_lt (Nat.lt_of_lt_of_le hk B.n_le)

/-- the working record agrees with the BIP-level key on what the steps read -/
structure SimPrv (w : Working) (x : XKey) : Prop where
  version : w.version = x.version
  chain : w.chain = x.chain
  key : w.key = x.key
  prv : w.prvKeyInt = x.prvInt
  isPrv : x.isPrivate = true

def Working.sync (w : Working) (y : XKey) : Working :=
  { w with chain := y.chain, key := y.key, prvKeyInt := y.prvInt }

theorem prvStepWith_sim (B : Bounds E) (w : Working) (x : XKey) (i : Nat) (pub : Bytes) (hh : Bytes × Bytes)
    (S : SimPrv w x) :
    prvStepWith E w i hh = (ckdPrivWith E x i pub hh).map (fun y => w.sync y) := by
  unfold prvStepWith ckdPrivWith
  simp only [S.prv]
  by_cases h1 : ofBE hh.1 ≥ nN E
  · simp [h1, Except.map]
  · by_cases h2 : (x.prvInt + ofBE hh.1) % nN E = 0
    · simp [h1, h2, Except.map]
    · have hlt : (x.prvInt + ofBE hh.1) % nN E < nN E := Nat.mod_lt _ B.n_pos
      simp only [h1, h2, if_false, Except.map, Working.sync]
      rw [prvInt_mk B _ hlt ⟨_, _, _, _, _, _⟩ rfl]

theorem prvStepB_sim (B : Bounds E) (w : Working) (x : XKey) (i : Nat) (pub : Bytes)
    (hpub : pub = [] ∨ pub = pubOfPrv E x.prvInt) (S : SimPrv w x) :
    prvStepB E w i pub = (ckdPriv E x i).map (fun y => w.sync y) := by
  have hxb : (if pub ≠ [] then pub else pubOfPrv E w.prvKeyInt) = pubOfPrv E x.prvInt := by
    rcases hpub with h | h
    · simp [h, S.prv]
    · have : pub ≠ [] := by rw [h]; exact serPoint_ne_nil E _
      rw [if_pos this, h]
  unfold prvStepB ckdPriv
  simp only [hxb, S.key, S.chain]
  exact prvStepWith_sim B w x i _ _ S

theorem ckdPriv_sim {w : Working} {x y : XKey} {i : Nat} (S : SimPrv w x) (h : ckdPriv E x i = .ok y) :
    SimPrv (w.sync y) y := by
  have hf := ckdPriv_fields E h
  exact ⟨by simp [Working.sync, S.version, hf.2.2.1], rfl, rfl, rfl, hf.2.2.2.1⟩

theorem walkPrv_sim (B : Bounds E) (w : Working) (x : XKey) (p : List Nat) (S : SimPrv w x) :
    walkPrv E w p = (deriveFold' E x p).map (fun y => w.sync y) := by
  induction p generalizing w x with
  | nil =>
    simp only [walkPrv, deriveFold', Except.map, Working.sync]
    congr 1
    cases w
    simp_all
    exact ⟨S.chain, S.key, S.prv⟩
  | cons i p ih =>
    simp only [walkPrv, deriveFold', ckd', S.isPrv, if_true]
    rw [prvStepB_sim B w x i [] (Or.inl rfl) S]
    cases hc : ckdPriv E x i with
    | error e => rfl
    | ok y =>
      simp only [Except.map, bind_ok']
      rw [ih (w.sync y) y (ckdPriv_sim S hc)]
      cases deriveFold' E y p with
      | error e => rfl
      | ok z => simp [Except.map, Working.sync]

end Btc.Bip32
