import Proofs.C07.Refine
/-
C07 helper lemmas, part 4: path-level neuter commutation, parent-key recovery, refusals,
forced versions.
-/
namespace Btc.Bip32
open Btc

variable {α : Type} {E : Env α}

theorem validPrv_isPrivate {x : XKey} (hv : ValidPrv E x) : x.isPrivate = true := by
  unfold XKey.isPrivate; rw [hv.key]; rfl

theorem ckdPriv_valid (B : Bounds E) {x y : XKey} {i : Nat} (h : ckdPriv E x i = .ok y) :
    ValidPrv E y ∧ y.version = x.version :=
  ⟨(ckdPrivWith_valid B h).1, (ckdPriv_fields E h).2.2.1⟩

/-! ### neuter commutation -/

section
variable {G : Type} [AddCommGroup G] (L : Lawful E.o G)
include L

theorem neuter_ckd (B : Bounds E) {x : XKey} (hv : ValidPrv E x) {v : Bytes}
    (hver : E.pubVersion x.version = some v) (i : Nat) (hi : i < HARDENED) :
    ((ckdPriv E x i).mapError Err.toPub).bind (neuter E) =
      ckdPub E { x with version := v, key := pubOfPrv E x.prvInt } i := by
  obtain ⟨Q, hQ, hQa⟩ := parsePoint_serPoint L B _ (pub_ne_zero L hv)
  unfold ckdPriv ckdPub
  simp only [Nat.not_le.mpr hi, ge_iff_le, if_false]
  have : parsePoint E (pubOfPrv E x.prvInt) = some Q := hQ
  simp only [this]
  exact neuter_with L B hver i _ Q hQa

theorem neuter_deriveFold (B : Bounds E) {v : Bytes} (p : List Nat) : ∀ (x : XKey), ValidPrv E x →
    E.pubVersion x.version = some v → (∀ i ∈ p, i < HARDENED) →
    ((deriveFold E x p).mapError Err.toPub).bind (neuter E) =
      (neuter E x).bind fun x' => deriveFold E x' p := by
  induction p with
  | nil =>
    intro x hv hver _
    rw [neuter_ok hv hver]
    simp [deriveFold, Except.mapError, Except.bind, neuter_ok hv hver]
  | cons i p ih =>
    intro x hv hver hp
    have hi : i < HARDENED := hp i (List.mem_cons_self ..)
    rw [neuter_ok hv hver]
    simp only [Except.bind, deriveFold, ckd]
    by_cases hd : x.depth ≥ MAX_DEPTH
    · simp [hd, Except.mapError, Except.bind, Err.toPub]
    · have hpubk : XKey.isPrivate { x with version := v, key := pubOfPrv E x.prvInt } = false :=
        serPoint_not_private E _ _ rfl
      simp only [hd, if_false, ckd', validPrv_isPrivate hv, if_true, hpubk, Bool.false_eq_true]
      have hstep := neuter_ckd L B hv hver i hi
      cases hc : ckdPriv E x i with
      | error e =>
        rw [hc] at hstep
        simp only [Except.mapError, Except.bind] at hstep ⊢
        rw [← hstep]
      | ok y =>
        rw [hc] at hstep
        simp only [Except.mapError, Except.bind] at hstep
        obtain ⟨hvy, hyv⟩ := ckdPriv_valid B hc
        have := ih y hvy (by rw [hyv]; exact hver) (fun j hj => hp j (List.mem_cons_of_mem _ hj))
        simp only [Except.bind] at this ⊢
        rw [← hstep, this]

end

/-! ### parent key recovery -/

theorem crackCore_ckdPriv (B : Bounds E) {x y : XKey} (hv : ValidPrv E x) (v : Bytes) (i : Nat)
    (hi : i < HARDENED) (hc : ckdPriv E x i = .ok y) :
    crackCore E { x with version := v, key := pubOfPrv E x.prvInt } y = .ok x := by
  unfold ckdPriv at hc
  simp only [Nat.not_le.mpr hi, ge_iff_le, if_false] at hc
  have hf := ckdPrivWith_fields E hc
  obtain ⟨hvy, hky⟩ := ckdPrivWith_valid B hc
  unfold crackCore
  have h1 : ¬ y.depth ≠ x.depth + 1 := by simp [hf.1]
  have h2 : ¬ y.parentFp ≠ fpOf E (pubOfPrv E x.prvInt) := by simp [hf.2.2.2.2.1]
  have h3 : ¬ i ≥ HARDENED := by omega
  simp only [h1, h2, if_false, hf.2.1, h3]
  generalize split E x.chain (pubOfPrv E x.prvInt ++ beBytes 4 i) = hh at *
  have hn : (0 : Int) < (nN E : Int) := by exact_mod_cast B.n_pos
  have harith : (((y.prvInt : Nat) : Int) - ((ofBE hh.1 : Nat) : Int)) % (nN E : Int) = (x.prvInt : Int) := by
    rw [hky]
    push_cast
    rw [Int.sub_emod, Int.emod_emod_of_dvd _ (dvd_refl _), ← Int.sub_emod]
    have : ((x.prvInt : Int) + (ofBE hh.1 : Nat) - (ofBE hh.1 : Nat)) = x.prvInt := by ring
    rw [this]
    apply Int.emod_eq_of_lt (by positivity)
    exact_mod_cast hv.lt
  rw [harith, Int.toNat_natCast, hf.2.2.1]
  congr 1
  have hk := hv.key
  cases x
  simp only at hk ⊢
  rw [← hk]

/-! ### refusals -/

theorem ckdPub_hardened (x : XKey) (i : Nat) (hi : i ≥ HARDENED) : ckdPub E x i = .error .hardenedPub := by
  unfold ckdPub; simp [hi]

theorem deriveB_too_deep (x : XKey) (p : List Nat) (f : Option Bytes) (h : x.depth + p.length > MAX_DEPTH) :
    deriveB E x p f = .error .depth := by
  unfold deriveB deriveWalk forceStage; simp [h]

theorem deriveB_public_hardened (x : XKey) (p : List Nat) (hpub : x.isPrivate = false)
    (hd : x.depth + p.length ≤ MAX_DEPTH) (hh : ∃ i ∈ p, i ≥ HARDENED) :
    deriveB E x p none = .error .hardenedPub := by
  rcases nil_or_snoc p with rfl | ⟨q, i, rfl⟩
  · obtain ⟨i, hi, _⟩ := hh; cases hi
  · replace hd : x.depth + (q.length + 1) ≤ MAX_DEPTH := by simpa using hd
    rw [deriveB_concat, if_neg (Nat.not_lt.mpr hd), hpub]
    simp only [Bool.false_eq_true, if_false]
    unfold pubPathB
    have : (q ++ [i]).any (· ≥ HARDENED) = true := by
      rw [List.any_eq_true]
      obtain ⟨j, hj, hjh⟩ := hh
      exact ⟨j, hj, by simpa using hjh⟩
    simp [this, Except.map]

theorem deriveFold'_public_hardened (p : List Nat) : ∀ (x : XKey), x.isPrivate = false →
    (∃ i ∈ p, i ≥ HARDENED) → ∃ e, deriveFold' E x p = .error e := by
  induction p with
  | nil => intro x _ ⟨i, hi, _⟩; cases hi
  | cons j p ih =>
    intro x hpub ⟨i, hi, hih⟩
    simp only [deriveFold', ckd', hpub, Bool.false_eq_true, if_false]
    cases hc : ckdPub E x j with
    | error e => exact ⟨e, rfl⟩
    | ok y =>
      have hf := ckdPub_fields E hc
      rcases List.mem_cons.mp hi with rfl | hi'
      · exact absurd hih (by have := hf.2.2.2.2.2; omega)
      · exact ih y hf.2.2.2.1 ⟨i, hi', hih⟩

/-! ### forced version -/

theorem deriveB_forced (x : XKey) (p : List Nat) (f : Bytes) (hf : f ≠ [])
    (hd : x.depth + p.length ≤ MAX_DEPTH) :
    deriveB E x p (some f) =
      (forceVersion E x.version f).bind fun v => deriveB E { x with version := v } p none := by
  unfold deriveB deriveWalk forceStage
  have hd' : ¬ x.depth + p.length > MAX_DEPTH := by omega
  simp only [hd', if_false]
  cases f with
  | nil => exact absurd rfl hf
  | cons b f' =>
    cases forceVersion E x.version (b :: f') with
    | error e => rfl
    | ok v => simp [Except.map, Except.bind, XKey.isPrivate, XKey.prvInt]

/-! ### consequences of T1 (whoever proves it) -/

theorem depth_of_ok {x y : XKey} {p : List Nat} {f : Option Bytes} (h : deriveB E x p f = .ok y) :
    x.depth + p.length ≤ MAX_DEPTH := by
  by_contra hc
  rw [deriveB_too_deep x p f (by omega)] at h
  cases h

theorem fields_of_eq {x y : XKey} {p : List Nat} (heq : deriveB E x p none = deriveFold E x p)
    (h : deriveB E x p none = .ok y) :
    y.depth = x.depth + p.length ∧ y.version = x.version ∧ y.isPrivate = x.isPrivate ∧
    ∀ i, p.getLast? = some i → y.index = i := by
  have hd := depth_of_ok h
  rw [heq, deriveFold_eq' E x p hd] at h
  exact deriveFold'_fields E x y p h

theorem compose_of_eq {x y : XKey} {p q : List Nat} (h1 : deriveB E x p none = deriveFold E x p)
    (h2 : deriveB E y q none = deriveFold E y q) (h3 : deriveB E x (p ++ q) none = deriveFold E x (p ++ q))
    (h : deriveB E x p none = .ok y) : deriveB E y q none = deriveB E x (p ++ q) none := by
  rw [h2, h3, deriveFold_append, ← h1, h]
  rfl

/-- T1 for private keys, with the fold that has the depth bound -/
theorem deriveB_private_fold (B : Bounds E) (x : XKey) (p : List Nat) (hprv : x.isPrivate = true)
    (hd : x.depth + p.length ≤ MAX_DEPTH) : deriveB E x p none = deriveFold E x p := by
  rw [deriveFold_eq' E x p hd]; exact deriveB_private B x p hprv hd

/-- fields, private keys: no group law -/
theorem deriveB_fields_private (B : Bounds E) (x y : XKey) (p : List Nat) (hprv : x.isPrivate = true)
    (h : deriveB E x p none = .ok y) :
    y.depth = x.depth + p.length ∧ y.version = x.version ∧ y.isPrivate = x.isPrivate ∧
    ∀ i, p.getLast? = some i → y.index = i :=
  fields_of_eq (deriveB_private_fold B x p hprv (depth_of_ok h)) h

/-- T2 in btclib's shape, private keys: no group law -/
theorem deriveB_compose_private (B : Bounds E) (x y : XKey) (p q : List Nat) (hprv : x.isPrivate = true)
    (hd : x.depth + (p ++ q).length ≤ MAX_DEPTH) (h : deriveB E x p none = .ok y) :
    deriveB E y q none = deriveB E x (p ++ q) none := by
  have hf := deriveB_fields_private B x y p hprv h
  have hdp : x.depth + p.length ≤ MAX_DEPTH := depth_of_ok h
  have hdq : y.depth + q.length ≤ MAX_DEPTH := by simp at hd; omega
  exact compose_of_eq (deriveB_private_fold B x p hprv hdp)
    (deriveB_private_fold B y q (by rw [hf.2.2.1]; exact hprv) hdq) (deriveB_private_fold B x (p ++ q) hprv hd) h

end Btc.Bip32
