import Proofs.C07.Fold
import Proofs.Common.Lawful
/-
C07 helper lemmas, part 2: what the group laws give (`Btc.Lawful`): compressed keys round-trip,
serialization is a function of the group element, the generator has order exactly `n`, and one
private step followed by neutering is neutering followed by one public step.
-/
namespace Btc.Bip32
open Btc

variable {α G : Type} [AddCommGroup G] {E : Env α} (L : Lawful E.o G)
include L

theorem n_cast : ((nN E : Nat) : Int) = E.o.n := Int.toNat_of_nonneg (le_of_lt L.n_pos)

theorem nN_prime : Nat.Prime (nN E) := L.n_prime

/-- the generator has order exactly `n` -/
theorem gen_zsmul_eq_zero_iff (m : Int) : m • L.abs E.o.gen = 0 ↔ E.o.n ∣ m := by
  constructor
  · intro h
    by_contra hnd
    rw [← n_cast L, Int.natCast_dvd] at hnd
    have hc : Nat.Coprime (nN E) m.natAbs := ((nN_prime L).coprime_iff_not_dvd).mpr hnd
    have hg : Int.gcd (nN E : Int) m = 1 := by
      simpa [Int.gcd, Nat.Coprime] using hc
    have hb := Int.gcd_eq_gcd_ab (nN E : Int) m
    rw [hg] at hb
    have h1 : ((nN E : Int) * Int.gcdA (nN E) m + m * Int.gcdB (nN E) m) • L.abs E.o.gen = L.abs E.o.gen := by
      rw [← hb]; simp
    rw [add_zsmul, mul_comm, mul_zsmul, n_cast L, L.order, zsmul_zero, zero_add, mul_comm, mul_zsmul, h,
      zsmul_zero] at h1
    exact L.gen_ne_zero h1.symm
  · rintro ⟨c, rfl⟩
    rw [mul_comm, mul_zsmul, L.order, zsmul_zero]

theorem abs_mul_gen_eq_zero_iff (m : Nat) : L.abs (E.o.mul (m : Int) E.o.gen) = 0 ↔ m % nN E = 0 := by
  rw [L.abs_mul, gen_zsmul_eq_zero_iff, ← n_cast L, Int.natCast_dvd_natCast, Nat.dvd_iff_mod_eq_zero]

/-- serialization depends on the group element only -/
theorem serPoint_congr (P Q : α) (h : L.abs P = L.abs Q) (hP : L.abs P ≠ 0) : serPoint E P = serPoint E Q := by
  have hQ : L.abs Q ≠ 0 := h ▸ hP
  have hx : E.o.x P = E.o.x Q := (L.x_eq_iff P Q hP hQ).mpr (Or.inl h)
  have hy := L.y_congr P Q h hP
  unfold serPoint
  rw [hx]
  by_cases hp : E.o.y P % 2 = 0
  · rw [if_pos hp, if_pos (hy.mp hp)]
  · rw [if_neg hp, if_neg (fun hq => hp (hy.mpr hq))]

/-- a compressed key parses back to (a representative of) the point it was written from -/
theorem parsePoint_serPoint (B : Bounds E) (P : α) (hP : L.abs P ≠ 0) :
    ∃ Q, parsePoint E (serPoint E P) = some Q ∧ L.abs Q = L.abs P := by
  have hr := L.x_range P hP
  have hx : ofBE (beBytes 32 (E.o.x P).toNat) = (E.o.x P).toNat := by
    rw [ofBE_beBytes]
    apply Nat.mod_eq_of_lt
    have : (256 : Nat) ^ 32 = 2 ^ 256 := by norm_num
    rw [this]
    have := B.p_le
    omega
  have hxi : (((E.o.x P).toNat : Nat) : Int) = E.o.x P := Int.toNat_of_nonneg hr.1
  cases hl : E.o.liftX (E.o.x P) with
  | none => exact absurd rfl (L.liftX_none _ hl P hP)
  | some R =>
    obtain ⟨hR0, hRx, hRy⟩ := L.liftX_some _ R hl
    have hpm := (L.x_eq_iff R P hR0 hP).mp hRx
    have hnegR : L.abs (E.o.neg R) = - L.abs R := L.abs_neg R
    by_cases hp : E.o.y P % 2 = 0
    · refine ⟨R, ?_, ?_⟩
      · unfold serPoint parsePoint
        simp [hp, hx, hxi, hl]
      · rcases hpm with h | h
        · exact h
        · -- `R = -P` with both y even: impossible unless `P = -P`
          exfalso
          have hnP : L.abs (E.o.neg P) = L.abs R := by rw [L.abs_neg, h]
          have hnP0 : L.abs (E.o.neg P) ≠ 0 := hnP ▸ hR0
          have := (L.y_congr (E.o.neg P) R hnP hnP0).mpr hRy
          exact ((L.y_neg P hP).mp this) hp
    · refine ⟨E.o.neg R, ?_, ?_⟩
      · unfold serPoint parsePoint
        simp [hp, hx, hxi, hl]
      · rw [hnegR]
        rcases hpm with h | h
        · exfalso
          exact hp ((L.y_congr R P h hR0).mp hRy)
        · rw [h, neg_neg]

/-! ### valid private keys, neutering -/

/-- what `assert_valid` establishes of a private key: `key = 00 ‖ ser256(k)`, `0 < k < n` -/
structure ValidPrv (E : Env α) (x : XKey) : Prop where
  pos : 0 < x.prvInt
  lt : x.prvInt < nN E
  key : x.key = 0 :: beBytes 32 x.prvInt

omit [AddCommGroup G] L in
theorem neuter_ok {x : XKey} (hv : ValidPrv E x) {v : Bytes} (hver : E.pubVersion x.version = some v) :
    neuter E x = .ok { x with version := v, key := pubOfPrv E x.prvInt } := by
  unfold neuter
  have h1 : x.key.head? = some 0 := by rw [hv.key]; rfl
  have h2 : ¬ x.prvInt % nN E = 0 := by
    rw [Nat.mod_eq_of_lt hv.lt]; exact Nat.ne_of_gt hv.pos
  simp [h1, hver, h2]

theorem pub_ne_zero {x : XKey} (hv : ValidPrv E x) : L.abs (E.o.mul (x.prvInt : Int) E.o.gen) ≠ 0 := by
  rw [Ne, abs_mul_gen_eq_zero_iff, Nat.mod_eq_of_lt hv.lt]
  exact Nat.ne_of_gt hv.pos

omit [AddCommGroup G] L in
theorem ckdPrivWith_valid (B : Bounds E) {x y : XKey} {i : Nat} {pub : Bytes} {hh : Bytes × Bytes}
    (h : ckdPrivWith E x i pub hh = .ok y) :
    ValidPrv E y ∧ y.prvInt = (x.prvInt + ofBE hh.1) % nN E := by
  have hf := ckdPrivWith_fields E h
  have hlt : (x.prvInt + ofBE hh.1) % nN E < nN E := Nat.mod_lt _ B.n_pos
  have hk := prvInt_mk B _ hlt y hf.2.2.2.2.2.2.2.2
  refine ⟨⟨?_, ?_, ?_⟩, hk⟩
  · rw [hk]; exact Nat.pos_of_ne_zero hf.2.2.2.2.2.2.2.1
  · rw [hk]; exact hlt
  · rw [hk]; exact hf.2.2.2.2.2.2.2.2

/-- one private step then neutering = neutering then one public step (after the MAC) -/
theorem neuter_with (B : Bounds E) {x : XKey} {v : Bytes}
    (hver : E.pubVersion x.version = some v) (i : Nat) (hh : Bytes × Bytes) (Q : α)
    (hQ : L.abs Q = L.abs (E.o.mul (x.prvInt : Int) E.o.gen)) :
    ((ckdPrivWith E x i (pubOfPrv E x.prvInt) hh).mapError Err.toPub).bind (neuter E) =
      ckdPubWith E { x with version := v, key := pubOfPrv E x.prvInt } i Q hh := by
  cases hc : ckdPrivWith E x i (pubOfPrv E x.prvInt) hh with
  | error e =>
    unfold ckdPrivWith at hc
    unfold ckdPubWith
    simp only at hc ⊢
    by_cases h1 : ofBE hh.1 ≥ nN E
    · simp only [h1, if_true] at hc ⊢
      cases hc; rfl
    · simp only [h1, if_false] at hc ⊢
      by_cases h2 : (x.prvInt + ofBE hh.1) % nN E = 0
      · simp only [h2, if_true] at hc
        cases hc
        have hz : E.o.isZero (E.o.add Q (E.o.mul ((ofBE hh.1 : Nat) : Int) E.o.gen)) = true := by
          rw [L.isZero_iff, L.abs_add, hQ, L.abs_mul, L.abs_mul, ← add_zsmul]
          have := (abs_mul_gen_eq_zero_iff L (x.prvInt + ofBE hh.1)).mpr h2
          rw [L.abs_mul] at this
          push_cast at this
          exact this
        simp [hz, Except.mapError, Except.bind, Err.toPub]
      · simp [h2] at hc
  | ok y =>
    have hf := ckdPrivWith_fields E hc
    obtain ⟨hvy, hky⟩ := ckdPrivWith_valid B hc
    have hvery : E.pubVersion y.version = some v := by rw [hf.2.2.1]; exact hver
    simp only [Except.mapError, Except.bind]
    rw [neuter_ok hvy hvery]
    unfold ckdPubWith
    simp only
    have h1 : ¬ ofBE hh.1 ≥ nN E := by have := hf.2.2.2.2.2.2.1; omega
    have habs : L.abs (E.o.add Q (E.o.mul ((ofBE hh.1 : Nat) : Int) E.o.gen))
        = L.abs (E.o.mul (y.prvInt : Int) E.o.gen) := by
      rw [L.abs_add, hQ, L.abs_mul, L.abs_mul, L.abs_mul, ← add_zsmul, hky]
      rw [← L.zsmul_mod ((x.prvInt : Int) + (ofBE hh.1 : Nat))]
      congr 1
      rw [← n_cast L]
      push_cast
      rfl
    have hnz : L.abs (E.o.mul (y.prvInt : Int) E.o.gen) ≠ 0 := pub_ne_zero L hvy
    have hz : E.o.isZero (E.o.add Q (E.o.mul ((ofBE hh.1 : Nat) : Int) E.o.gen)) = false := by
      rw [Bool.eq_false_iff, Ne, L.isZero_iff, habs]
      exact hnz
    simp only [h1, if_false, hz]
    have hser : pubOfPrv E y.prvInt = serPoint E (E.o.add Q (E.o.mul ((ofBE hh.1 : Nat) : Int) E.o.gen)) := by
      unfold pubOfPrv
      exact serPoint_congr L _ _ habs.symm hnz
    rw [hser]
    simp [hf.1, hf.2.1, hf.2.2.2.2.1, hf.2.2.2.2.2.1]

end Btc.Bip32
