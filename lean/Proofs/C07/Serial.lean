import Model.C07.Serial
import Proofs.Common.Bytes
/-! `parse ∘ serialize = id` on valid extended keys, and what `parse` enforces. -/
namespace Btc.Bip32
open Btc

variable {α : Type} (E : Env α)

/-- the sizes `assert_valid` establishes -/
theorem assertValid_sizes {x : XKey} (h : assertValid E x = .ok ()) :
    x.version.length = 4 ∧ x.parentFp.length = 4 ∧ x.chain.length = 32 ∧ x.key.length = 33 ∧
    x.index < 2 ^ 32 ∧ x.depth ≤ 255 ∧ (x.depth = 0 → x.parentFp = [0, 0, 0, 0] ∧ x.index = 0) := by
  unfold assertValid at h
  by_cases h1 : x.version.length ≠ 4 ∨ x.parentFp.length ≠ 4 ∨ x.chain.length ≠ 32 ∨ x.key.length ≠ 33
  · rw [if_pos h1] at h; cases h
  · rw [if_neg h1] at h
    by_cases h2 : x.index > Gen.Bip32.VALID_MAX_INDEX
    · rw [if_pos h2] at h; cases h
    · rw [if_neg h2] at h
      by_cases h3 : x.depth > Gen.Bip32.VALID_MAX_DEPTH
      · rw [if_pos h3] at h; cases h
      · rw [if_neg h3] at h
        by_cases h4 : x.depth = 0 ∧ (x.parentFp ≠ [0, 0, 0, 0] ∨ x.index ≠ 0)
        · rw [if_pos h4] at h; cases h
        · simp only [Gen.Bip32.VALID_MAX_INDEX, Gen.Bip32.VALID_MAX_DEPTH] at h2 h3
          refine ⟨by omega, by omega, by omega, by omega, by omega, by omega, ?_⟩
          intro hd
          by_cases hp : x.parentFp = [0, 0, 0, 0]
          · by_cases hi : x.index = 0
            · exact ⟨hp, hi⟩
            · exact absurd ⟨hd, Or.inr hi⟩ h4
          · exact absurd ⟨hd, Or.inl hp⟩ h4

theorem serialBytes_length {x : XKey} (h : assertValid E x = .ok ()) : (serialBytes x).length = 78 := by
  obtain ⟨a, b, c, d, _, _, _⟩ := assertValid_sizes E h
  simp [serialBytes, beBytes, a, b, c, d]

/-- reading the six fields off the 78 bytes written gives the fields back -/
theorem fieldsOf_serialBytes {x : XKey} (h : assertValid E x = .ok ()) : fieldsOf (serialBytes x) = x := by
  obtain ⟨a, b, c, d, hi, hd, _⟩ := assertValid_sizes E h
  have hbe : (beBytes 4 x.index).length = 4 := by simp [beBytes]
  unfold fieldsOf serialBytes
  simp only [List.take_left' a, List.drop_left' a, List.headD_cons, List.drop_succ_cons, List.drop_zero,
    List.take_left' b, List.drop_left' b, List.take_left' hbe, List.drop_left' hbe, List.take_left' c, List.drop_left' c]
  have h1 : (UInt8.ofNat x.depth).toNat = x.depth := by
    simp [UInt8.toNat_ofNat']; omega
  have h2 : ofBE (beBytes 4 x.index) = x.index := by
    rw [ofBE_beBytes]; exact Nat.mod_eq_of_lt (by simpa using hi)
  rw [h1, h2]

/-- `parse (serialize x) = x` for every valid extended key -/
theorem parse_serialize' {x : XKey} (h : assertValid E x = .ok ()) :
    (serialize E x).bind (parse E) = .ok x := by
  unfold serialize parse
  rw [h]
  simp only [Except.map, Except.bind, serialBytes_length E h, Gen.Bip32.REQUIRED_LENGTH, ne_eq, not_true_eq_false,
    if_false, fieldsOf_serialBytes E h, h]

/-- what `assert_valid` establishes about the key against the version -/
theorem assertValid_key {x : XKey} (h : assertValid E x = .ok ()) :
    (E.isPrvVersion x.version = true → x.key.head? = some 0 ∧ 0 < x.prvInt ∧ x.prvInt < nN E) ∧
    (E.isPrvVersion x.version ≠ true → E.isPubVersion x.version = true ∧ (parsePoint E x.key).isSome = true) := by
  unfold assertValid at h
  by_cases h1 : x.version.length ≠ 4 ∨ x.parentFp.length ≠ 4 ∨ x.chain.length ≠ 32 ∨ x.key.length ≠ 33
  · rw [if_pos h1] at h; cases h
  · rw [if_neg h1] at h
    by_cases h2 : x.index > Gen.Bip32.VALID_MAX_INDEX
    · rw [if_pos h2] at h; cases h
    · rw [if_neg h2] at h
      by_cases h3 : x.depth > Gen.Bip32.VALID_MAX_DEPTH
      · rw [if_pos h3] at h; cases h
      · rw [if_neg h3] at h
        by_cases h4 : x.depth = 0 ∧ (x.parentFp ≠ [0, 0, 0, 0] ∨ x.index ≠ 0)
        · rw [if_pos h4] at h; cases h
        · rw [if_neg h4] at h
          by_cases h5 : E.isPrvVersion x.version = true
          · rw [if_pos h5] at h
            by_cases h6 : x.key.head? ≠ some 0
            · rw [if_pos h6] at h; cases h
            · rw [if_neg h6] at h
              by_cases h7 : 0 < x.prvInt ∧ x.prvInt < nN E
              · exact ⟨fun _ => ⟨Classical.not_not.mp h6, h7.1, h7.2⟩, fun hn => absurd h5 hn⟩
              · rw [if_neg h7] at h; cases h
          · rw [if_neg h5] at h
            by_cases h8 : E.isPubVersion x.version = true
            · rw [if_pos h8] at h
              by_cases h9 : (parsePoint E x.key).isSome = true
              · exact ⟨fun hp => absurd hp h5, fun _ => ⟨h8, h9⟩⟩
              · rw [if_neg h9] at h; cases h
            · rw [if_neg h8] at h; cases h

theorem parse_ok {b : Bytes} {x : XKey} (h : parse E b = .ok x) :
    b.length = 78 ∧ x = fieldsOf b ∧ assertValid E x = .ok () := by
  unfold parse at h
  by_cases hl : b.length ≠ Gen.Bip32.REQUIRED_LENGTH
  · rw [if_pos hl] at h; cases h
  · rw [if_neg hl] at h
    cases hv : assertValid E (fieldsOf b) with
    | error e => rw [hv] at h; cases h
    | ok u =>
      rw [hv] at h
      cases h
      exact ⟨by simpa [Gen.Bip32.REQUIRED_LENGTH] using hl, rfl, hv⟩

end Btc.Bip32
