import Model.C07.Bip85
import Proofs.Common.Bytes
/-! Lemmas on the BIP85 dice reader (`Model/C07/Bip85.lean`): rejection sampling, trial width, byte order. -/
namespace Btc.Bip85
open Btc Btc.Py

/-! ### bit length (`int.bit_length`) -/

theorem natBitLengthAux_spec : ∀ fuel n, n ≤ fuel →
    (n = 0 → natBitLengthAux fuel n = 0) ∧
    (0 < n → 1 ≤ natBitLengthAux fuel n ∧ 2 ^ (natBitLengthAux fuel n - 1) ≤ n ∧ n < 2 ^ natBitLengthAux fuel n) := by
  intro fuel
  induction fuel with
  | zero =>
    intro n hn
    have : n = 0 := by omega
    subst this
    simp [natBitLengthAux]
  | succ k ih =>
    intro n hn
    constructor
    · intro h0; simp [natBitLengthAux, h0]
    · intro hpos
      have hne : n ≠ 0 := by omega
      simp only [natBitLengthAux, hne, if_false]
      have hk : n / 2 ≤ k := by omega
      obtain ⟨ih0, ihp⟩ := ih (n / 2) hk
      by_cases h2 : n / 2 = 0
      · rw [ih0 h2]
        have : n = 1 := by omega
        subst this; simp
      · obtain ⟨a, b, c⟩ := ihp (by omega)
        refine ⟨by omega, ?_, ?_⟩
        · have : 1 + natBitLengthAux k (n / 2) - 1 = (natBitLengthAux k (n / 2) - 1) + 1 := by omega
          rw [this, Nat.pow_succ]; omega
        · rw [Nat.add_comm, Nat.pow_succ]; omega

theorem natBitLength_pos (n : Nat) (h : 0 < n) :
    1 ≤ natBitLength n ∧ 2 ^ (natBitLength n - 1) ≤ n ∧ n < 2 ^ natBitLength n :=
  (natBitLengthAux_spec n n (Nat.le_refl n)).2 h

/-- `bits_per_roll` is `ceil(log2 sides)`: the least width holding every face -/
theorem bitsPerRoll_spec (sides : Nat) (hs : 2 ≤ sides) :
    1 ≤ bitsPerRoll sides ∧ 2 ^ (bitsPerRoll sides - 1) < sides ∧ sides ≤ 2 ^ bitsPerRoll sides := by
  obtain ⟨a, b, c⟩ := natBitLength_pos (sides - 1) (by omega)
  unfold bitsPerRoll
  exact ⟨a, by omega, by omega⟩

theorem width_split (sides : Nat) : 8 * bytesPerRoll sides = bitsPerRoll sides + excessBits sides := by
  unfold excessBits bytesPerRoll; omega

/-- a trial read from `bytes_per_roll` bytes fits `bits_per_roll` bits -/
theorem trialOf_lt (sides : Nat) (c : Bytes) (hc : c.length = bytesPerRoll sides) :
    trialOf sides c < 2 ^ bitsPerRoll sides := by
  unfold trialOf
  rw [Nat.shiftRight_eq_div_pow, Nat.div_lt_iff_lt_mul (Nat.two_pow_pos _), ← Nat.pow_add, ← width_split, ← hc,
    Nat.pow_mul]
  exact ofBE_lt c

theorem ofBE_snoc (c : Bytes) (d : UInt8) : ofBE (c ++ [d]) = ofBE c * 256 + d.toNat := by
  simp [ofBE, List.foldl_append]

/-! ### rejection sampling -/

theorem collect_spec (sides : Nat) : ∀ (ts : List Nat) (n : Nat) (h : List Nat),
    collect sides ts n = some h ↔
      n ≤ (ts.filter (· < sides)).length ∧ h = (ts.filter (· < sides)).take n := by
  intro ts
  induction ts with
  | nil =>
    intro n h
    by_cases hn : n = 0
    · subst hn; simp [collect, eq_comm]
    · simp [collect, hn]
  | cons t ts ih =>
    intro n h
    by_cases hn : n = 0
    · subst hn; simp [collect, eq_comm]
    · obtain ⟨m, rfl⟩ : ∃ m, n = m + 1 := ⟨n - 1, by omega⟩
      by_cases ht : t < sides
      · simp only [collect, hn, if_false, ht, if_true, Nat.add_sub_cancel, List.filter_cons, decide_true,
          List.length_cons, List.take_succ_cons, Option.map_eq_some_iff]
        constructor
        · rintro ⟨a, ha, rfl⟩
          obtain ⟨h1, h2⟩ := (ih m a).1 ha
          exact ⟨by omega, by rw [h2]⟩
        · rintro ⟨h1, rfl⟩
          exact ⟨_, (ih m _).2 ⟨by omega, rfl⟩, rfl⟩
      · simp only [collect, hn, if_false, ht, List.filter_cons, decide_false]
        exact ih (m + 1) h

end Btc.Bip85
