import Model.C07.DerPath
import Proofs.Common.Bytes
import Mathlib.Tactic.NormNum
/-
C07 helper lemmas, part 6: derivation-path spellings (`der_path.py`).
-/
namespace Btc.DerPath
open Btc

theorem hardened_eq : HARDENED = 2 ^ 31 := by decide
theorem max_index_eq : Gen.Bip32.PATH_MAX_INDEX = 2 ^ 32 - 1 := by decide

/-! ### bytes form -/

theorem chunks4_flatMap (idx : List Nat) (hi : ∀ i ∈ idx, i < 2 ^ 32) :
    ∀ fuel, idx.length ≤ fuel → chunks4 fuel (idx.flatMap (leBytes 4)) = idx := by
  induction idx with
  | nil => intro fuel _; cases fuel <;> simp [chunks4]
  | cons i idx ih =>
    intro fuel hf
    cases fuel with
    | zero => simp at hf
    | succ fuel =>
      have hlen : (leBytes 4 i).length = 4 := leBytes_length 4 i
      have hne : (leBytes 4 i ++ idx.flatMap (leBytes 4)).isEmpty = false := by
        cases h : leBytes 4 i with
        | nil => rw [h] at hlen; cases hlen
        | cons a t => rfl
      simp only [List.flatMap_cons, chunks4, hne, Bool.false_eq_true, if_false]
      rw [List.take_left' hlen, List.drop_left' hlen, ofLE_leBytes]
      have h4 : (256 : Nat) ^ 4 = 2 ^ 32 := by norm_num
      rw [h4, Nat.mod_eq_of_lt (hi i (List.mem_cons_self ..))]
      rw [ih (fun j hj => hi j (List.mem_cons_of_mem _ hj)) fuel (by simpa using hf)]

theorem flatMap_le_length (idx : List Nat) : (idx.flatMap (leBytes 4)).length = 4 * idx.length := by
  induction idx with
  | nil => rfl
  | cons i idx ih => simp [List.flatMap_cons, ih]; omega

theorem bytes_roundtrip (idx : List Nat) (hi : ∀ i ∈ idx, i < 2 ^ 32) :
    ∃ b, bytesFromIndexes idx = .ok b ∧ indexesFromBytes b = .ok idx := by
  have hany : idx.any (· > Gen.Bip32.PATH_MAX_INDEX) = false := by
    rw [List.any_eq_false]
    intro j hj
    have := hi j hj
    rw [max_index_eq]; simp; omega
  refine ⟨idx.flatMap (leBytes 4), by simp [bytesFromIndexes, hany], ?_⟩
  unfold indexesFromBytes
  rw [flatMap_le_length]
  simp only [Nat.mul_mod_right, ne_eq, not_true_eq_false, if_false]
  rw [chunks4_flatMap idx hi _ (by omega)]

/-! ### text form -/

theorem digit_range (c : Char) (h : c.isDigit = true) : 48 ≤ c.toNat ∧ c.toNat ≤ 57 := by
  unfold Char.isDigit at h
  simp only [Bool.and_eq_true, decide_eq_true_eq, ge_iff_le] at h
  exact ⟨UInt32.le_iff_toNat_le.mp h.1, UInt32.le_iff_toNat_le.mp h.2⟩

theorem digit_not_ws (c : Char) (h : c.isDigit = true) : isWs c = false := by
  have := digit_range c h
  unfold isWs
  simp
  omega

theorem digit_ne (c : Char) (h : c.isDigit = true) (d : Char) (hd : d.isDigit = false) : c ≠ d := by
  intro e; rw [e, hd] at h; cases h

theorem dropWhile_none (p : Char → Bool) (l : List Char) (h : ∀ c ∈ l, p c = false) : l.dropWhile p = l := by
  cases l with
  | nil => rfl
  | cons c t => simp [List.dropWhile, h c (List.mem_cons_self ..)]

theorem stripBy_none (p : Char → Bool) (l : List Char) (h : ∀ c ∈ l, p c = false) : stripBy p l = l := by
  unfold stripBy
  rw [dropWhile_none p l h, dropWhile_none p l.reverse (by simpa using h), List.reverse_reverse]

theorem strip_noWs (l : List Char) (h : ∀ c ∈ l, isWs c = false) : strip l = l := stripBy_none isWs l h

theorem stripInt_noWs (l : List Char) (h : ∀ c ∈ l, isWs c = false) : stripBy isWsInt l = l :=
  stripBy_none isWsInt l (fun c hc => by simp [isWsInt, h c hc])

theorem digits_isDigit (n : Nat) : ∀ c ∈ Nat.toDigits 10 n, c.isDigit = true :=
  fun _ hc => Nat.isDigit_of_mem_toDigits (by decide) (by decide) hc

theorem validBodyAux_digits (l : List Char) (h : ∀ c ∈ l, c.isDigit = true) :
    ∀ prev, (l ≠ [] ∨ prev = true) → validBodyAux prev l = true := by
  induction l with
  | nil => intro prev hp; rcases hp with hp | hp; exact absurd rfl hp; simp [validBodyAux, hp]
  | cons c t ih =>
    intro prev _
    have hc : isDigit c = true := h c (List.mem_cons_self ..)
    simp only [validBodyAux, hc, if_true]
    exact ih (fun d hd => h d (List.mem_cons_of_mem _ hd)) true (Or.inr rfl)

theorem filter_digits (l : List Char) (h : ∀ c ∈ l, c.isDigit = true) : l.filter (· ≠ '_') = l := by
  rw [List.filter_eq_self]
  intro c hc
  have := digit_ne c (h c hc) '_' (by decide)
  simpa using this

theorem signBody_digits (l : List Char) (h : ∀ c ∈ l, c.isDigit = true) : signBody l = (false, l) := by
  unfold signBody
  split
  · rename_i r
    exact absurd (h '-' (List.mem_cons_self ..)) (by decide)
  · rename_i r
    exact absurd (h '+' (List.mem_cons_self ..)) (by decide)
  · rfl

theorem pyInt_digits (n : Nat) : pyInt (Nat.toDigits 10 n) = some (n : Int) := by
  have hD := digits_isDigit n
  have hne : Nat.toDigits 10 n ≠ [] := Nat.toDigits_ne_nil
  unfold pyInt
  rw [stripInt_noWs _ (fun c hc => digit_not_ws c (hD c hc)), signBody_digits _ hD]
  simp only [validBodyAux_digits _ hD false (Or.inl hne), if_true, filter_digits _ hD,
    Nat.ofDigitChars_ten_toDigits, Bool.false_eq_true, if_false]

theorem hardenings_not_digit (d : Char) (hd : d.isDigit = true) : Gen.Bip32.HARDENINGS.contains d = false := by
  have h1 := digit_ne d hd (Char.ofNat 39) (by decide)
  have h2 := digit_ne d hd (Char.ofNat 104) (by decide)
  have h3 := digit_ne d hd (Char.ofNat 72) (by decide)
  simp [Gen.Bip32.HARDENINGS, h1, h2, h3]

theorem isHard_digits (n : Nat) : isHard Gen.Bip32.HARDENINGS (Nat.toDigits 10 n) = false := by
  unfold isHard
  cases hl : (Nat.toDigits 10 n).getLast? with
  | none => rfl
  | some d => exact hardenings_not_digit d (digits_isDigit n d (List.mem_of_getLast? hl))

theorem isHard_marked (l : List Char) (c : Char) (hc : c ∈ Gen.Bip32.HARDENINGS) :
    isHard Gen.Bip32.HARDENINGS (l ++ [c]) = true := by
  unfold isHard
  simp [hc]

theorem step_plain (n : Nat) :
    indexOfStep Gen.Bip32.HARDENINGS false (Nat.toDigits 10 n) =
      if n < 2 ^ 31 then .ok n else .error .index := by
  unfold indexOfStep
  simp only [isHard_digits, Bool.false_eq_true, if_false, Bool.false_and, pyInt_digits, hardened_eq]
  by_cases h : n < 2 ^ 31
  · have : (0 : Int) ≤ n ∧ (n : Int) < ((2 ^ 31 : Nat) : Int) := ⟨by positivity, by exact_mod_cast h⟩
    simp [this, h]
  · have : ¬ ((0 : Int) ≤ n ∧ (n : Int) < ((2 ^ 31 : Nat) : Int)) := by
      intro ⟨_, h2⟩; exact h (by exact_mod_cast h2)
    simp [this, h]

theorem step_marked (n : Nat) (hn : n < 2 ^ 31) (c : Char) (hc : c ∈ Gen.Bip32.HARDENINGS) :
    indexOfStep Gen.Bip32.HARDENINGS false (Nat.toDigits 10 n ++ [c]) = .ok (n + 2 ^ 31) := by
  unfold indexOfStep
  have : (0 : Int) ≤ n ∧ (n : Int) < ((2 ^ 31 : Nat) : Int) := ⟨by positivity, by exact_mod_cast hn⟩
  have hn' : n < 2147483648 := by simpa using hn
  simp [isHard_marked _ c hc, pyInt_digits, hardened_eq, this, hn']

theorem step_markers (n : Nat) (hn : n < 2 ^ 31) (c : Char) (hc : c ∈ Gen.Bip32.HARDENINGS) :
    indexOfStep Gen.Bip32.HARDENINGS false (Nat.toDigits 10 n ++ [c]) = .ok (n + 2 ^ 31) ∧
    indexOfStep Gen.Bip32.HARDENINGS false (Nat.toDigits 10 n) = .ok n :=
  ⟨step_marked n hn c hc, by rw [step_plain, if_pos hn]⟩

theorem step_boundary (n : Nat) (hn : 2 ^ 31 ≤ n) :
    indexOfStep Gen.Bip32.HARDENINGS false (Nat.toDigits 10 n) = .error .index ∧
    indexOfStep Gen.Bip32.HARDENINGS false (Nat.toDigits 10 (2 ^ 31 - 1)) = .ok (2 ^ 31 - 1) :=
  ⟨by rw [step_plain, if_neg (by omega)], by rw [step_plain, if_pos (by norm_num)]⟩

/-! #### split / join -/

theorem splitOn_noSep (sep : Char) (a : List Char) (h : sep ∉ a) : splitOn sep a = [a] := by
  induction a with
  | nil => rfl
  | cons c t ih =>
    have hc : c ≠ sep := fun e => h (e ▸ List.mem_cons_self ..)
    simp [splitOn, hc, ih (fun hm => h (List.mem_cons_of_mem _ hm))]

theorem splitOn_append (sep : Char) (a rest : List Char) (h : sep ∉ a) :
    splitOn sep (a ++ sep :: rest) = a :: splitOn sep rest := by
  induction a with
  | nil => simp [splitOn]
  | cons c t ih =>
    have hc : c ≠ sep := fun e => h (e ▸ List.mem_cons_self ..)
    simp [splitOn, hc, ih (fun hm => h (List.mem_cons_of_mem _ hm))]

theorem splitOn_intercalate (sep : Char) (parts : List (List Char)) (hne : parts ≠ [])
    (h : ∀ a ∈ parts, sep ∉ a) : splitOn sep (intercalate sep parts) = parts := by
  induction parts with
  | nil => exact absurd rfl hne
  | cons a t ih =>
    cases t with
    | nil => simp [intercalate, splitOn_noSep sep a (h a (List.mem_cons_self ..))]
    | cons b rest =>
      simp only [intercalate]
      rw [splitOn_append sep a _ (h a (List.mem_cons_self ..)),
        ih (by simp) (fun c hc => h c (List.mem_cons_of_mem _ hc))]

theorem mapM_map_ok {α β γ ε : Type} (l : List α) (part : α → γ) (f : γ → Except ε β) (g : α → β)
    (h : ∀ a ∈ l, f (part a) = .ok (g a)) : (l.map part).mapM f = .ok (l.map g) := by
  induction l with
  | nil => rfl
  | cons a t ih =>
    rw [List.map_cons, List.mapM_cons, h a (List.mem_cons_self ..), ih (fun b hb => h b (List.mem_cons_of_mem _ hb))]
    rfl

/-- the text written for one index -/
def part (hsym : Char) (i : Nat) : List Char :=
  if i < HARDENED then Nat.toDigits 10 i else Nat.toDigits 10 (i - HARDENED) ++ [hsym]

theorem part_chars (hsym : Char) (hh : hsym = 'h' ∨ hsym = '\'') (i : Nat) :
    ∀ c ∈ part hsym i, isWs c = false ∧ c ≠ '/' := by
  intro c hc
  have hs : isWs hsym = false ∧ hsym ≠ '/' := by rcases hh with rfl | rfl <;> decide
  have hdig : ∀ n, ∀ d ∈ Nat.toDigits 10 n, isWs d = false ∧ d ≠ '/' := fun n d hd =>
    ⟨digit_not_ws d (digits_isDigit n d hd), digit_ne d (digits_isDigit n d hd) '/' (by decide)⟩
  unfold part at hc
  split at hc
  · exact hdig _ c hc
  · rcases List.mem_append.mp hc with h | h
    · exact hdig _ c h
    · rw [List.mem_singleton.mp h]; exact hs

theorem part_ne_nil (hsym : Char) (i : Nat) : part hsym i ≠ [] := by
  unfold part; split
  · exact Nat.toDigits_ne_nil
  · simp

theorem part_parses (hsym : Char) (hh : hsym = 'h' ∨ hsym = '\'') (i : Nat) (hi : i < 2 ^ 32) :
    indexOfStep Gen.Bip32.HARDENINGS false (part hsym i) = .ok i := by
  unfold part
  rw [hardened_eq]
  split
  · rename_i h; rw [step_plain, if_pos h]
  · rename_i h
    have hm : hsym ∈ Gen.Bip32.HARDENINGS := by rcases hh with rfl | rfl <;> decide
    rw [step_marked _ (by omega) hsym hm]
    congr 1; omega

theorem strOfIndex_part (hsym : Char) (hh : hsym = 'h' ∨ hsym = '\'') (i : Nat) :
    strOfIndex [hsym] i = .ok (part hsym i) := by
  have : Gen.Bip32.BIP380_HARDENINGS.contains hsym = true := by rcases hh with rfl | rfl <;> decide
  unfold strOfIndex part
  simp only [this, Bool.not_true, Bool.false_eq_true, if_false]
  split <;> rfl

theorem str_roundtrip (idx : List Nat) (hsym : Char) (hh : hsym = 'h' ∨ hsym = '\'')
    (hi : ∀ i ∈ idx, i < 2 ^ 32) (hl : idx.length ≤ 255) :
    ∃ s, strFromIndexes idx [hsym] = .ok s ∧ indexesFromStr s = .ok idx := by
  have hany : idx.any (· > Gen.Bip32.PATH_MAX_INDEX) = false := by
    rw [List.any_eq_false]
    intro j hj
    have := hi j hj
    rw [max_index_eq]; simp; omega
  have hparts : idx.mapM (strOfIndex [hsym]) = .ok (idx.map (part hsym)) := by
    have := mapM_map_ok idx id (strOfIndex [hsym]) (part hsym) (fun a _ => strOfIndex_part hsym hh a)
    simpa using this
  unfold strFromIndexes
  simp only [hany, Bool.false_eq_true, if_false, hparts, Except.map]
  refine ⟨_, rfl, ?_⟩
  cases idx with
  | nil =>
    show indexesFromStr ['m'] = .ok []
    decide
  | cons i rest =>
    have hne : (List.map (part hsym) (i :: rest)) ≠ [] := by simp
    have hemp : (List.map (part hsym) (i :: rest)).isEmpty = false := by simp
    simp only [hemp, Bool.false_eq_true, if_false]
    unfold indexesFromStr
    have hsplit : splitOn '/' ('m' :: '/' :: intercalate '/' (List.map (part hsym) (i :: rest))) =
        ['m'] :: List.map (part hsym) (i :: rest) := by
      have := splitOn_append '/' ['m'] (intercalate '/' (List.map (part hsym) (i :: rest))) (by decide)
      rw [List.singleton_append] at this
      rw [this, splitOn_intercalate '/' _ hne]
      intro a ha
      obtain ⟨j, _, rfl⟩ := List.mem_map.mp ha
      exact fun hm => (part_chars hsym hh j '/' hm).2 rfl
    have hstrip : (List.map (part hsym) (i :: rest)).map strip = List.map (part hsym) (i :: rest) := by
      rw [List.map_map]
      apply List.map_congr_left
      intro j _
      exact strip_noWs _ (fun c hc => (part_chars hsym hh j c hc).1)
    have hm : strip ['m'] = ['m'] := by decide
    have hskip : skipM (['m'] :: List.map (part hsym) (i :: rest)) = List.map (part hsym) (i :: rest) := by
      unfold skipM
      have hlow : (['m'].map lower == ['m']) = true := by decide
      simp only [hlow, if_true]
    simp only []
    rw [hsplit, List.map_cons, hm, hstrip, hskip]
    have hfilter : (List.map (part hsym) (i :: rest)).filter (fun st => !st.isEmpty) =
        List.map (part hsym) (i :: rest) := by
      rw [List.filter_eq_self]
      intro a ha
      obtain ⟨j, _, rfl⟩ := List.mem_map.mp ha
      have := part_ne_nil hsym j
      cases hp : part hsym j with
      | nil => exact absurd hp this
      | cons _ _ => rfl
    rw [hfilter, mapM_map_ok (i :: rest) (part hsym) _ id (fun a ha => part_parses hsym hh a (hi a ha))]
    have hlen : ¬ (i :: rest).length > Gen.Bip32.PATH_STR_MAX_LEN := by
      have : Gen.Bip32.PATH_STR_MAX_LEN = 255 := by decide
      rw [this]; simpa using hl
    simp only [Except.bind, hlen, if_false, List.map_id]

end Btc.DerPath
