import Model.C07.DerPath
import Proofs.Common.Bytes
import Mathlib.Tactic.NormNum
/-
C07 helper lemmas, part 6: derivation-path spellings (`der_path.py`).
-/
namespace Btc.DerPath
open Btc

theorem hardened_eq : HARDENED = 2 ^ 31 := by decide
theorem max_index_eq : Gen.Bip32.PATH_MAX_INDEX = 2 ^ 32 - 1 := by decide

/-! ### bytes form -/

theorem chunks4_flatMap (idx : List Nat) (hi : ∀ i ∈ idx, i < 2 ^ 32) :
    ∀ fuel, idx.length ≤ fuel → chunks4 fuel (idx.flatMap (leBytes 4)) = idx := by
  induction idx with
  | nil => intro fuel _; cases fuel <;> simp [chunks4]
  | cons i idx ih =>
    intro fuel hf
    cases fuel with
    | zero => simp at hf
    | succ fuel =>
      have hlen : (leBytes 4 i).length = 4 := leBytes_length 4 i
      have hne : (leBytes 4 i ++ idx.flatMap (leBytes 4)).isEmpty = false := by
        cases h : leBytes 4 i with
        | nil => rw [h] at hlen; cases hlen
        | cons a t => rfl
      simp only [List.flatMap_cons, chunks4, hne, Bool.false_eq_true, if_false]
      rw [List.take_left' hlen, List.drop_left' hlen, ofLE_leBytes]
      have h4 : (256 : Nat) ^ 4 = 2 ^ 32 := by norm_num
      rw [h4, Nat.mod_eq_of_lt (hi i (List.mem_cons_self ..))]
      rw [ih (fun j hj => hi j (List.mem_cons_of_mem _ hj)) fuel (by simpa using hf)]

theorem flatMap_le_length (idx : List Nat) : (idx.flatMap (leBytes 4)).length = 4 * idx.length := by
  induction idx with
  | nil => rfl
  | cons i idx ih => simp [List.flatMap_cons, ih]; omega

theorem bytes_roundtrip (idx : List Nat) (hi : ∀ i ∈ idx, i < 2 ^ 32) :
    ∃ b, bytesFromIndexes idx = .ok b ∧ indexesFromBytes b = .ok idx := by
  have hany : idx.any (· > Gen.Bip32.PATH_MAX_INDEX) = false := by
    rw [List.any_eq_false]
    intro j hj
    have := hi j hj
    rw [max_index_eq]; simp; omega
  refine ⟨idx.flatMap (leBytes 4), by simp [bytesFromIndexes, hany], ?_⟩
  unfold indexesFromBytes
  rw [flatMap_le_length]
  simp only [Nat.mul_mod_right, ne_eq, not_true_eq_false, if_false]
  rw [chunks4_flatMap idx hi _ (by omega)]

end Btc.DerPath
