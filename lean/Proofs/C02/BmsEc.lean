import Proofs.C02.BmsSig
import Proofs.E2E.C02
/-
T8d on an elliptic curve: `Bms.sign_then_verify` instantiated with C01's `lawful_ec` on the lawful carrier `opsSub K`
(the reduced valid pairs of the `n`-torsion, computed with `Btc.EC.ops C`), every hypothesis discharged.
-/
namespace Btc.E2E
open Btc Btc.EC Btc.C01 Btc.Ecdsa

section
variable {p : ℕ} [Fact p.Prime] {C : Curve}

/-- bms on the carrier: the octets `ser` writes for the underlying pair; infinity (`y = 0`), which `bytes_from_point`
    refuses, gets none -/
def bmsEnvSub (ser : Point → Bool → Bytes) (h160 : Bytes → Bytes) : Bms.Env (SubPt p C) :=
  ⟨fun P c => if P.1.2 = 0 then [] else ser P.1 c, h160⟩

/-- `hser` discharged: two carrier elements denoting one point are one pair (`absA_inj`), or both infinity -/
theorem bmsEnvSub_hser (K : CurveOk p C) (ser : Point → Bool → Bytes) (h160 : Bytes → Bytes)
    (P Q : SubPt p C) (c : Bool) (h : absSub P = absSub Q) :
    (bmsEnvSub ser h160).ser P c = (bmsEnvSub ser h160).ser Q c := by
  show (if P.1.2 = 0 then [] else ser P.1 c) = (if Q.1.2 = 0 then [] else ser Q.1 c)
  by_cases hy : P.1.2 = 0
  · have hQ : Q.1.2 = 0 := by
      by_contra hq
      have := (absSub_ne_zero_iff Q).mpr hq
      rw [← h] at this
      exact (absSub_ne_zero_iff P).mp this hy
    rw [if_pos hy, if_pos hQ]
  · have hQ : Q.1.2 ≠ 0 := by
      have := (absSub_ne_zero_iff P).mpr hy
      rw [h] at this
      exact (absSub_ne_zero_iff Q).mp this
    have e : P.1 = Q.1 := absA_inj K.hC P.1 Q.1 P.2.1 Q.2.1 P.2.2.1 Q.2.2.1 hy h
    rw [if_neg hy, if_neg hQ, e]

/-- **T8d on the lawful carrier of any `CurveOk` curve with `p ≡ 3 (mod 4)` and `p < 2n`**: no hypothesis left but the
    run itself -/
theorem bms_sign_then_verify_ec (K : CurveOk p C) (h34 : p % 4 = 3) (hp2n : C.p < 2 * C.n)
    (ser : Point → Bool → Bytes) (h160 : Bytes → Bytes) (H : Rfc6979.HashSpec) (mm : Bytes) (q : ℤ) (comp : Bool)
    (addr : Option Bms.Addr) (fuel : ℕ) (rf : ℕ) (r s : ℤ)
    (h : Bms.sign (opsSub K) (bmsEnvSub ser h160 : Bms.Env (SubPt p C)) H mm q comp addr fuel = .ok (rf, r, s)) :
    (∀ t, Bms.accepts t rf = true →
        Bms.assertAsValid (opsSub K) (bmsEnvSub ser h160 : Bms.Env (SubPt p C)) (isXCoord C) (Rfc6979.challenge C.n mm)
          (Bms.addrOf (bmsEnvSub ser h160 : Bms.Env (SubPt p C)) t ((bmsEnvSub ser h160 : Bms.Env (SubPt p C)).ser ((opsSub K).mul q (opsSub K).gen) comp)) rf r s
          = .ok ()) ∧
    (∃ t, Bms.ownType (bmsEnvSub ser h160 : Bms.Env (SubPt p C)) ((bmsEnvSub ser h160 : Bms.Env (SubPt p C)).ser ((opsSub K).mul q (opsSub K).gen) comp) comp addr
        = some t ∧ Bms.accepts t rf = true) ∧
    27 ≤ rf ∧ rf ≤ 42 ∧ s ≤ C.n / 2 :=
  Bms.sign_then_verify (lawful_ec K h34) (bmsEnvSub ser h160 : Bms.Env (SubPt p C)) (isXCoord C)
    (fun P hP => isXCoord_complete K P hP) (fun P Q c hh => bmsEnvSub_hser K ser h160 P Q c hh) hp2n
    H mm q comp addr fuel rf r s h

end

/-- secp256k1, on its lawful carrier `SecpPt` (which, cofactor one being proved, holds EVERY reduced valid pair) -/
theorem bms_sign_then_verify_secp256k1_carrier
    (ser : Point → Bool → Bytes) (h160 : Bytes → Bytes) (H : Rfc6979.HashSpec) (mm : Bytes) (q : ℤ) (comp : Bool)
    (addr : Option Bms.Addr) (fuel : ℕ) (rf : ℕ) (r s : ℤ)
    (h : Bms.sign secpOps (bmsEnvSub ser h160 : Bms.Env SecpPt) H mm q comp addr fuel = .ok (rf, r, s)) :
    (∀ t, Bms.accepts t rf = true →
        Bms.assertAsValid secpOps (bmsEnvSub ser h160 : Bms.Env SecpPt) (isXCoord secp256k1) (Rfc6979.challenge secp256k1.n mm)
          (Bms.addrOf (bmsEnvSub ser h160 : Bms.Env SecpPt) t ((bmsEnvSub ser h160 : Bms.Env SecpPt).ser (secpOps.mul q secpOps.gen) comp)) rf r s
          = .ok ()) ∧
    (∃ t, Bms.ownType (bmsEnvSub ser h160 : Bms.Env SecpPt) ((bmsEnvSub ser h160 : Bms.Env SecpPt).ser (secpOps.mul q secpOps.gen) comp) comp addr
        = some t ∧ Bms.accepts t rf = true) ∧
    27 ≤ rf ∧ rf ≤ 42 ∧ s ≤ secp256k1.n / 2 :=
  @bms_sign_then_verify_ec secp256k1_p ⟨secp256k1_p_prime⟩ secp256k1 secpOk secp256k1_h34 (by decide +kernel)
    ser h160 H mm q comp addr fuel rf r s h

/-- the toy curve `y² = x³ + 7` over `F₄₃` (31 points): an actual run of `bms.sign` over the carrier -/
theorem toy_bms_sign :
    Bms.sign (opsSub toyOk) (bmsEnvSub (Bms.secSer 1) id) ⟨fun _ _ => [0x10], 1⟩ [0x1f] 5 true none 4 =
      .ok (31, 7, 12) := by decide +kernel

end Btc.E2E
