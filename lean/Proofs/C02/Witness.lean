import Proofs.C02.Ecdsa
/-
Non-vacuity of the hypothesis bundle: a concrete `GroupOps` that is `Lawful` and satisfies `YParity`
(the additive group of `ZMod 7` with "x-coordinate" `P ↦ P²`, "y-coordinate" `P ↦ P`), on which the
ECDSA functions compute.  Not a curve — a witness that the theorems' hypotheses are jointly satisfiable
and that the conclusions are not vacuous.
-/
namespace Btc.Ecdsa.Witness
open Btc Btc.Ecdsa

abbrev Z := ZMod 7

def liftTab (x : ℤ) : Option Z :=
  if x = 1 then some 6 else if x = 2 then some 4 else if x = 4 then some 2 else none

def ops : GroupOps Z where
  n := 7
  p := 7
  zero := 0
  add := (· + ·)
  neg := (- ·)
  mul := fun m P => (m : Z) * P
  gen := 1
  isZero := fun P => P == 0
  x := fun P => ((P * P).val : ℤ)
  y := fun P => (P.val : ℤ)
  liftX := liftTab
  eq := fun P Q => P == Q

theorem squares : ∀ P : Z, P ≠ 0 → ((P * P).val : ℤ) = 1 ∨ ((P * P).val : ℤ) = 2 ∨ ((P * P).val : ℤ) = 4 := by
  decide

def lawful : Lawful ops Z where
  abs := id
  n_pos := by decide
  n_prime := by
    show Nat.Prime 7
    decide
  abs_zero := rfl
  abs_add := fun _ _ => rfl
  abs_neg := fun _ => rfl
  abs_mul := fun m P => (zsmul_eq_mul P m).symm
  order := by
    intro P
    show (7 : ℤ) • P = 0
    rw [zsmul_eq_mul]
    have : ((7 : ℤ) : Z) = 0 := by decide
    rw [this, zero_mul]
  isZero_iff := by intro P; simp [ops]
  gen_ne_zero := by decide
  eq_iff := by intro P Q; simp [ops]
  x_eq_iff := by
    show ∀ P Q : Z, P ≠ 0 → Q ≠ 0 → (((P * P).val : ℤ) = ((Q * Q).val : ℤ) ↔ P = Q ∨ P = -Q)
    decide
  x_range := by
    show ∀ P : Z, P ≠ 0 → 0 ≤ ((P * P).val : ℤ) ∧ ((P * P).val : ℤ) < 7
    decide
  y_neg := by
    show ∀ P : Z, P ≠ 0 → (((-P).val : ℤ) % 2 = 0 ↔ ¬ ((P.val : ℤ) % 2 = 0))
    decide
  x_neg := by
    show ∀ P : Z, (((-P) * (-P)).val : ℤ) = ((P * P).val : ℤ)
    decide
  y_congr := by
    intro P Q h _
    have : P = Q := h
    rw [this]
  liftX_some := by
    intro x P h
    show P ≠ 0 ∧ ((P * P).val : ℤ) = x ∧ (P.val : ℤ) % 2 = 0
    have h' : liftTab x = some P := h
    unfold liftTab at h'
    split_ifs at h' with h1 h2 h3 <;> (cases h'; subst_vars; decide)
  liftX_none := by
    intro x h P hP hx
    have h' : liftTab x = none := h
    have hx' : ((P * P).val : ℤ) = x := hx
    have := squares P hP
    unfold liftTab at h'
    split_ifs at h' with h1 h2 h3
    omega

/-- the functions compute on it: a signature, and (by the theorems) it verifies and recovers -/
example : signRecoverable ops 3 5 2 true = .ok (4, 1, 0) := by decide

end Btc.Ecdsa.Witness
