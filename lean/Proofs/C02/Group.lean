import Proofs.C02.Ecdsa
/-
The part of C02 that never calls `lift_x` — completeness (T1), exactness (T2, T2'), nonce-reuse extraction (T6) — over
`LawfulGroup` (every field of `Lawful` except `liftX_some` / `liftX_none`; Proofs/Common/Lawful.lean), so that it is
instantiated by `Btc.C01.lawfulGroup_ec` on EVERY odd prime field, not only `p ≡ 3 (mod 4)`.

GENERATED TEXTUALLY from Proofs/C02/Basic.lean and Proofs/C02/Ecdsa.lean (same proofs, `Lawful` ↦ `LawfulGroup`;
namespace `Btc.Ecdsa.Grp`); the `Lawful` statements there are the instances at `L.toLawfulGroup` (`SEC1_iff_grp`).
-/
namespace Btc.Ecdsa.Grp
open Btc Btc.EC Btc.Ecdsa

variable {α G : Type} [AddCommGroup G] {o : GroupOps α} (L : LawfulGroup o G)

include L in
theorem ord_cast : ((ord o : ℕ) : ℤ) = o.n := Int.toNat_of_nonneg (le_of_lt L.n_pos)

include L in
theorem fact_prime : Fact (Nat.Prime (ord o)) := ⟨L.n_prime⟩

include L in
theorem cast_emod (a : ℤ) : ((a % o.n : ℤ) : ZMod (ord o)) = (a : ZMod (ord o)) := by
  conv_lhs => rw [← ord_cast L]
  exact ZMod.intCast_mod a (ord o)

include L in
theorem cast_n : ((o.n : ℤ) : ZMod (ord o)) = 0 := by
  have h : (((ord o : ℕ) : ℤ) : ZMod (ord o)) = 0 := by
    rw [Int.cast_natCast]; exact ZMod.natCast_self _
  rwa [ord_cast L] at h

include L in
theorem cast_ne_zero {a : ℤ} (h0 : 0 < a) (h1 : a < o.n) : (a : ZMod (ord o)) ≠ 0 := by
  intro h
  have hd := (ZMod.intCast_zmod_eq_zero_iff_dvd a (ord o)).mp h
  rw [ord_cast L] at hd
  have := Int.le_of_dvd h0 hd
  omega

include L in
theorem cast_ne_zero_of_emod {a : ℤ} (h : a % o.n ≠ 0) : (a : ZMod (ord o)) ≠ 0 := by
  intro h'
  have hd := (ZMod.intCast_zmod_eq_zero_iff_dvd a (ord o)).mp h'
  rw [ord_cast L] at hd
  exact h (Int.emod_eq_zero_of_dvd hd)

/-- integer scalars act through their residue -/
theorem zsmul_congr {a b : ℤ} (P : G) (hP : o.n • P = 0) (h : (a : ZMod (ord o)) = (b : ZMod (ord o)))
    (hn : 0 < o.n) : a • P = b • P := by
  have hm : a % o.n = b % o.n := by
    have := (ZMod.intCast_eq_intCast_iff a b (ord o)).mp h
    rw [Int.toNat_of_nonneg (le_of_lt hn)] at this
    exact this
  have key : ∀ m : ℤ, (m % o.n) • P = m • P := by
    intro m
    have h := Int.emod_add_mul_ediv m o.n
    conv_rhs => rw [← h]
    rw [add_zsmul, mul_comm, mul_zsmul, hP, zsmul_zero, add_zero]
  rw [← key a, ← key b, hm]

theorem abs_zsmul_congr {a b : ℤ} (P : α) (h : (a : ZMod (ord o)) = (b : ZMod (ord o))) :
    a • L.abs P = b • L.abs P :=
  zsmul_congr (L.abs P) (L.order P) h L.n_pos

/-- a non-zero element is not killed by a scalar that is invertible modulo n -/
theorem zsmul_ne_zero {a : ℤ} (P : α) (hP : L.abs P ≠ 0) (ha : (a : ZMod (ord o)) ≠ 0) :
    a • L.abs P ≠ 0 := by
  have := fact_prime L
  intro h
  obtain ⟨x, -, -, -, hx⟩ := modInv_prime (p := ord o) a ha
  have : (x * a) • L.abs P = (1 : ℤ) • L.abs P :=
    abs_zsmul_congr L P (by push_cast; rw [mul_comm]; exact hx)
  rw [mul_zsmul, h, zsmul_zero, one_zsmul] at this
  exact hP this.symm

include L in
/-- two residues in `0..n-1` with the same class are the same integer -/
theorem eq_of_cast_eq {a b : ℤ} (ha : 0 ≤ a ∧ a < o.n) (hb : 0 ≤ b ∧ b < o.n)
    (h : (a : ZMod (ord o)) = (b : ZMod (ord o))) : a = b := by
  have := (ZMod.intCast_eq_intCast_iff a b (ord o)).mp h
  rw [ord_cast L] at this
  have h1 := Int.emod_eq_of_lt ha.1 ha.2
  have h2 := Int.emod_eq_of_lt hb.1 hb.2
  unfold Int.ModEq at this
  omega

include L in
/-- `modInv` on the group order: every residue that is non-zero gets its `ZMod n` inverse -/
theorem modInv_n {a : ℤ} (ha : (a : ZMod (ord o)) ≠ 0) :
    ∃ x, modInv a o.n = some x ∧ 0 ≤ x ∧ x < o.n ∧ ((a : ZMod (ord o)) * (x : ZMod (ord o)) = 1) := by
  have := fact_prime L
  have := modInv_prime (p := ord o) a ha
  rw [ord_cast L] at this
  exact this


/-- the x-coordinate is a function of the group element up to sign -/
theorem x_congr {P Q : α} (hP : L.abs P ≠ 0) (h : L.abs Q = L.abs P ∨ L.abs Q = - L.abs P) :
    o.x Q = o.x P := by
  have hQ : L.abs Q ≠ 0 := by
    rcases h with h | h
    · rw [h]; exact hP
    · rw [h]; exact neg_ne_zero.mpr hP
  apply (L.x_eq_iff Q P hQ hP).mpr h

theorem abs_verifyPoint (c r w : ℤ) (Q : α) :
    L.abs (verifyPoint o c Q r w) = (r * w % o.n) • L.abs Q + (c * w % o.n) • L.abs o.gen := by
  unfold verifyPoint
  rw [L.abs_dmul]

/-- under the key `q·G` the recomputed point is `(w (c + r q))·G` -/
theorem abs_verifyPoint_key (c q r w : ℤ) (Q : α) (hQ : L.abs Q = q • L.abs o.gen) :
    L.abs (verifyPoint o c Q r w) = (w * (c + r * q)) • L.abs o.gen := by
  rw [abs_verifyPoint, hQ, ← mul_zsmul, ← add_zsmul]
  apply abs_zsmul_congr L
  push_cast
  rw [cast_emod L, cast_emod L]
  push_cast
  ring

/-- the generic acceptance lemma: if, for the inverse `w` of `s`, the recomputed point is `±K0` with
    `K0 ≠ 0` and `r = x(K0) mod n`, the core accepts -/
theorem verifyCore_ok_of {c r s : ℤ} {Q K0 : α} (hs : 0 < s ∧ s < o.n) (hK0 : L.abs K0 ≠ 0)
    (hr : r = o.x K0 % o.n)
    (hK : ∀ w : ℤ, (s : ZMod (ord o)) * w = 1 →
      L.abs (verifyPoint o c Q r w) = L.abs K0 ∨ L.abs (verifyPoint o c Q r w) = - L.abs K0) :
    verifyCore o c Q r s false = .ok () := by
  obtain ⟨w, hw, -, -, hw1⟩ := modInv_n L (cast_ne_zero L hs.1 hs.2)
  have hx := x_congr L hK0 (hK w hw1)
  have hnz : L.abs (verifyPoint o c Q r w) ≠ 0 := by
    rcases hK w hw1 with h | h
    · rw [h]; exact hK0
    · rw [h]; exact neg_ne_zero.mpr hK0
  have hz : o.isZero (verifyPoint o c Q r w) = false := by
    cases hzz : o.isZero (verifyPoint o c Q r w)
    · rfl
    · exact absurd ((L.isZero_iff _).mp hzz) hnz
  unfold verifyCore
  simp only [hw]
  rw [hz, hx, ← hr]
  simp

theorem abs_verifyPoint' (c r w : ℤ) (Q : α) :
    L.abs (verifyPoint o c Q r w) = (r * w) • L.abs Q + (c * w) • L.abs o.gen := by
  rw [abs_verifyPoint]
  congr 1
  · exact abs_zsmul_congr L Q (cast_emod L _)
  · exact abs_zsmul_congr L o.gen (cast_emod L _)

include L in
theorem emod_range (a : ℤ) (h : a % o.n ≠ 0) : 0 < a % o.n ∧ a % o.n < o.n := by
  have hn := L.n_pos
  have h1 := Int.emod_nonneg a (ne_of_gt hn)
  have h2 := Int.emod_lt_of_pos a hn
  omega

/-- the nonce point `k·G` is not the identity -/
theorem nonce_point_ne_zero {k : ℤ} (hk : 0 < k ∧ k < o.n) : L.abs (o.mul k o.gen) ≠ 0 := by
  rw [L.abs_mul]
  exact zsmul_ne_zero L o.gen L.gen_ne_zero (cast_ne_zero L hk.1 hk.2)

/-- T1 core: a signature made with nonce `k` makes the verifier recompute `±k·G` -/
theorem sign_core {c q k : ℤ} {lowerS : Bool} {r s kid : ℤ} (hk : 0 < k ∧ k < o.n)
    (Q : α) (hQ : L.abs Q = q • L.abs o.gen)
    (h : signRecoverable o c q k lowerS = .ok (r, s, kid)) :
    (0 < r ∧ r < o.n) ∧ (0 < s ∧ s < o.n) ∧ (lowerS = true → s ≤ o.n / 2) ∧
    verifyCore o c Q r s false = .ok () := by
  obtain ⟨ki, s0, hki, hr, hr0, hs0, hs0nz, hcase⟩ := signRecoverable_ok h
  have hn := L.n_pos
  obtain ⟨ki', hki', -, -, hkk⟩ := modInv_n L (cast_ne_zero L hk.1 hk.2)
  rw [hki] at hki'
  cases hki'
  have hrr : 0 < r ∧ r < o.n := by rw [hr]; exact emod_range L _ (by rw [← hr]; exact hr0)
  have hs0r : 0 < s0 ∧ s0 < o.n := by rw [hs0]; exact emod_range L _ (by rw [← hs0]; exact hs0nz)
  have hs0c : (s0 : ZMod (ord o)) = ki * (c + r * q) := by
    rw [hs0, cast_emod L]; push_cast; ring
  have hK0 := nonce_point_ne_zero L hk
  rcases hcase with ⟨hl, hgt, hs, -⟩ | ⟨hl, hs, -⟩
  · have hsr : 0 < s ∧ s < o.n := by omega
    refine ⟨hrr, hsr, fun _ => by omega, ?_⟩
    apply verifyCore_ok_of L hsr hK0 hr
    intro w hw
    right
    rw [abs_verifyPoint_key L c q r w Q hQ, L.abs_mul, ← neg_zsmul]
    apply abs_zsmul_congr L
    have hsc : (s : ZMod (ord o)) = - s0 := by rw [hs]; push_cast; rw [cast_n L]; ring
    rw [hsc, hs0c] at hw
    push_cast
    linear_combination (-((w : ZMod (ord o)) * (c + r * q))) * hkk - (k : ZMod (ord o)) * hw
  · have hsr : 0 < s ∧ s < o.n := by omega
    refine ⟨hrr, hsr, fun hls => ?_, ?_⟩
    · have : ¬ s0 > o.n / 2 := fun hh => hl ⟨hls, hh⟩
      omega
    apply verifyCore_ok_of L hsr hK0 hr
    intro w hw
    left
    rw [abs_verifyPoint_key L c q r w Q hQ, L.abs_mul]
    apply abs_zsmul_congr L
    rw [hs, hs0c] at hw
    push_cast
    linear_combination (-((w : ZMod (ord o)) * (c + r * q))) * hkk + (k : ZMod (ord o)) * hw

/-- T1 (completeness): every signature `_sign_recoverable_` returns — with either `lower_s` — verifies
    under any representation `Q` of the key `q·G`, and is low-s when asked. -/
theorem sign_verifies {c q k : ℤ} {lowerS : Bool} {r s kid : ℤ} (hk : 0 < k ∧ k < o.n)
    (Q : α) (hQ : L.abs Q = q • L.abs o.gen)
    (h : signRecoverable o c q k lowerS = .ok (r, s, kid)) :
    verify o c Q r s = true ∧ (lowerS = true → s ≤ o.n / 2) := by
  obtain ⟨hr, hs, hl, hv⟩ := sign_core L hk Q hQ h
  refine ⟨?_, hl⟩
  unfold verify
  rw [hv]
  simp [hr, hs]

/-- SEC 1 v2 §4.1.4 over the abstract group: `r, s ∈ 1..n-1` and, with `w = s⁻¹ (mod n)`, the group
    element `K = (r w)·Q + (c w)·G` is not the identity and `x(K) mod n = r`. -/
def SEC1 (L : LawfulGroup o G) (c : ℤ) (Q : α) (r s : ℤ) : Prop :=
  0 < r ∧ r < o.n ∧ 0 < s ∧ s < o.n ∧
  ∃ w : ℤ, (s : ZMod (ord o)) * w = 1 ∧
  ∃ K : α, L.abs K = (r * w) • L.abs Q + (c * w) • L.abs o.gen ∧ L.abs K ≠ 0 ∧ o.x K % o.n = r

/-- T2 (exactness): the verifier accepts exactly the SEC 1 relation -/
theorem verify_iff_SEC1 (c : ℤ) (Q : α) (r s : ℤ) : verify o c Q r s = true ↔ SEC1 L c Q r s := by
  constructor
  · intro h
    unfold verify at h
    simp only [Bool.and_eq_true, decide_eq_true_eq] at h
    obtain ⟨⟨hr, hs⟩, hv⟩ := h
    obtain ⟨w, hw, -, -, hw1⟩ := modInv_n L (cast_ne_zero L hs.1 hs.2)
    refine ⟨hr.1, hr.2, hs.1, hs.2, w, hw1, verifyPoint o c Q r w, abs_verifyPoint' L c r w Q, ?_⟩
    unfold verifyCore at hv
    simp only [hw, Bool.false_eq_true, false_and, if_false] at hv
    have hz : o.isZero (verifyPoint o c Q r w) = false := by
      cases hzz : o.isZero (verifyPoint o c Q r w)
      · rfl
      · simp [hzz] at hv
    have hx : r = o.x (verifyPoint o c Q r w) % o.n := by
      by_contra hne
      simp [hz, hne] at hv
    refine ⟨fun h0 => ?_, hx.symm⟩
    rw [(L.isZero_iff _).mpr h0] at hz
    cases hz
  · rintro ⟨hr0, hr1, hs0, hs1, w, hw, K, hK, hKnz, hx⟩
    have hv : verifyCore o c Q r s false = .ok () := by
      apply verifyCore_ok_of L ⟨hs0, hs1⟩ hKnz hx.symm
      intro w' hw'
      left
      rw [abs_verifyPoint' L, hK]
      have e : (w' : ZMod (ord o)) = w := by
        linear_combination (w : ZMod (ord o)) * hw' - (w' : ZMod (ord o)) * hw
      congr 1
      · apply abs_zsmul_congr L; push_cast; rw [e]
      · apply abs_zsmul_congr L; push_cast; rw [e]
    unfold verify
    rw [hv]
    simp [hr0, hr1, hs0, hs1]

/-! ## T6: two signatures sharing a nonce give up the key -/

include L in
theorem crack_correct {c1 c2 q k r1 s1 id1 r2 s2 id2 : ℤ} (hk : 0 < k ∧ k < o.n) (hq : 0 < q ∧ q < o.n)
    (h1 : signRecoverable o c1 q k false = .ok (r1, s1, id1))
    (h2 : signRecoverable o c2 q k false = .ok (r2, s2, id2)) (hne : s1 ≠ s2) :
    crack o c1 r1 s1 c2 r2 s2 = .ok (q, k) := by
  obtain ⟨ki, s01, hki, hr1, hr10, hs01, hs01nz, hcase1⟩ := signRecoverable_ok h1
  obtain ⟨ki2, s02, hki2, hr2, hr20, hs02, hs02nz, hcase2⟩ := signRecoverable_ok h2
  rw [hki] at hki2
  cases hki2
  have hn := L.n_pos
  obtain ⟨ki', hki', -, -, hkk⟩ := modInv_n L (cast_ne_zero L hk.1 hk.2)
  rw [hki] at hki'
  cases hki'
  have e1 : s1 = s01 := by
    rcases hcase1 with ⟨h, -⟩ | ⟨-, h, -⟩
    · cases h
    · exact h
  have e2 : s2 = s02 := by
    rcases hcase2 with ⟨h, -⟩ | ⟨-, h, -⟩
    · cases h
    · exact h
  subst e1 e2
  have hrr : r1 = r2 := by rw [hr1, hr2]
  subst hrr
  have hr1r : 0 < r1 ∧ r1 < o.n := by rw [hr1]; exact emod_range L _ (by rw [← hr1]; exact hr10)
  have hs1r : 0 < s1 ∧ s1 < o.n := by rw [hs01]; exact emod_range L _ (by rw [← hs01]; exact hs01nz)
  have hs2r : 0 < s2 ∧ s2 < o.n := by rw [hs02]; exact emod_range L _ (by rw [← hs02]; exact hs02nz)
  have hs1c : (s1 : ZMod (ord o)) = ki * (c1 + r1 * q) := by
    rw [hs01, cast_emod L]; push_cast; ring
  have hs2c : (s2 : ZMod (ord o)) = ki * (c2 + r1 * q) := by
    rw [hs02, cast_emod L]; push_cast; ring
  have hdne : ((s1 - s2 : ℤ) : ZMod (ord o)) ≠ 0 := by
    intro h0
    apply hne
    apply eq_of_cast_eq L ⟨le_of_lt hs1r.1, hs1r.2⟩ ⟨le_of_lt hs2r.1, hs2r.2⟩
    push_cast at h0
    linear_combination h0
  obtain ⟨d, hd, -, -, hdd⟩ := modInv_n L hdne
  obtain ⟨ri, hri, -, -, hrri⟩ := modInv_n L (cast_ne_zero L hr1r.1 hr1r.2)
  push_cast at hdd
  have hk' : (c1 - c2) * d % o.n = k := by
    apply eq_of_cast_eq L ⟨Int.emod_nonneg _ (ne_of_gt hn), Int.emod_lt_of_pos _ hn⟩ ⟨le_of_lt hk.1, hk.2⟩
    rw [cast_emod L]
    push_cast
    rw [hs1c, hs2c] at hdd
    linear_combination (-(c1 - c2 : ZMod (ord o)) * d) * hkk + (k : ZMod (ord o)) * hdd
  have hq' : (s2 * k - c2) * ri % o.n = q := by
    apply eq_of_cast_eq L ⟨Int.emod_nonneg _ (ne_of_gt hn), Int.emod_lt_of_pos _ hn⟩ ⟨le_of_lt hq.1, hq.2⟩
    rw [cast_emod L]
    push_cast
    rw [hs2c]
    linear_combination ((c2 + r1 * q : ZMod (ord o)) * ri) * hkk + (q : ZMod (ord o)) * hrri
  unfold crack
  simp [hne, hd, hri, hk', hq']

/-- `dsa.verify_` first validates the `Sig` — ranges, and "r is congruent to an x-coordinate" — before the
    equation.  If the x-coordinate test `isX` accepts every x-coordinate of a non-identity element, the
    screen is redundant: the boolean the API answers is exactly the SEC 1 predicate `verify`. -/
theorem verifyFull_eq_verify (isX : ℤ → Bool) (hX : ∀ P, L.abs P ≠ 0 → isX (o.x P) = true)
    (c : ℤ) (Q : α) (r s : ℤ) : verifyFull o isX c Q r s = verify o c Q r s := by
  by_cases hv : verify o c Q r s = true
  · rw [hv]
    obtain ⟨hr0, hr1, hs0, hs1, w, -, K, -, hK, hx⟩ := (verify_iff_SEC1 L c Q r s).mp hv
    have hcore : verifyCore o c Q r s false = .ok () := by
      unfold verify at hv
      simp only [Bool.and_eq_true] at hv
      cases hc : verifyCore o c Q r s false with
      | ok u => cases u; rfl
      | error e => rw [hc] at hv; simp at hv
    have hxr := L.x_range K hK
    have hn := L.n_pos
    have hcong : congruent o isX (o.p / o.n + 1).toNat r = true := by
      have hj0 : 0 ≤ o.x K / o.n := Int.ediv_nonneg hxr.1 (le_of_lt hn)
      have hdecomp : r + ((o.x K / o.n).toNat : ℤ) * o.n = o.x K := by
        rw [Int.toNat_of_nonneg hj0, ← hx]
        have := Int.emod_add_mul_ediv (o.x K) o.n
        linarith
      apply congruent_of isX hn _ r (o.x K / o.n).toNat
      · have h1 : o.x K / o.n ≤ o.p / o.n := Int.ediv_le_ediv hn (le_of_lt hxr.2)
        omega
      · rw [hdecomp]; exact hxr.2
      · rw [hdecomp]; exact hX K hK
    unfold verifyFull sigValid
    simp [hr0, hr1, hs0, hs1, hcong, hcore]
  · have hv' : verify o c Q r s = false := by simpa using hv
    rw [hv']
    unfold verifyFull
    cases hsv : sigValid o isX r s with
    | error e => rfl
    | ok u =>
      have hrs : (0 < r ∧ r < o.n) ∧ (0 < s ∧ s < o.n) := by
        unfold sigValid at hsv
        split at hsv
        · cases hsv
        · rename_i h1
          split at hsv
          · cases hsv
          · split at hsv
            · cases hsv
            · rename_i h3
              exact ⟨not_not.mp h1, not_not.mp h3⟩
      unfold verify at hv'
      cases hc : verifyCore o c Q r s false with
      | ok u => rw [hc] at hv'; simp [hrs.1, hrs.2] at hv'
      | error e => rfl


end Btc.Ecdsa.Grp

namespace Btc.Ecdsa
variable {α G : Type} [AddCommGroup G] {o : GroupOps α}

/-- the `Lawful` relation is the `LawfulGroup` one at `L.toLawfulGroup` -/
theorem SEC1_iff_grp (L : Lawful o G) (c : ℤ) (Q : α) (r s : ℤ) :
    SEC1 L c Q r s ↔ Grp.SEC1 L.toLawfulGroup c Q r s := Iff.rfl

end Btc.Ecdsa
