import Proofs.C02.SignMsg
import Proofs.C02.Misc
import Model.C02.BmsSig
/-
T8d (BMS, sign then verify): what `bms.sign` answers for an address of the key opens, under `bms.assert_as_valid`, to
that address — and to every address of the key whose type the flag may speak for (the Electrum rule) — for every
`Lawful` group whose field is shorter than twice its order (`p < 2n`: then `key_id < 4`, as on secp256k1).
-/
namespace Btc.Bms
open Btc Btc.Ecdsa Btc.Rfc6979

variable {α G : Type} [AddCommGroup G] {o : GroupOps α}

theorem addrOf_fst (E : Env α) (t : AddrType) (pk : Bytes) : (addrOf E t pk).1 = t := by
  cases t <;> rfl

/-- the regenerated guard table, read at a flag `bms.sign` wrote -/
theorem flag_table {kid : ℕ} (hk : kid < 4) (comp : Bool) (t : AddrType) {rf : ℕ} (h : flag kid comp t = some rf) :
    inRange rf = true ∧ keyIdOf rf = kid ∧ compressedOf rf = comp ∧ accepts t rf = true :=
  flag_reads_back kid (List.mem_range.mpr hk) comp (by cases comp <;> simp) t (by cases t <;> simp [allTypes]) rf
    (by simp [h])

/-- the cofactor-one arm of `_recover_pub_key_` answers only when `x_K = r + j·n` is below `p` -/
theorem recover_prime_range {kid c r s : ℤ} {Q : α} (h : recover o true kid c r s false = .ok Q) :
    0 ≤ r + kid / 2 * o.n ∧ r + kid / 2 * o.n < o.p := by
  by_contra hc
  unfold recover at h
  simp [hc] at h

/-- … hence, when `p < 2n`, only for `key_id ∈ 0..3` -/
theorem kid_range {n p r kid : ℤ} (hn : 0 < n) (hp : p < 2 * n) (hr : 0 < r ∧ r < n)
    (h : 0 ≤ r + kid / 2 * n ∧ r + kid / 2 * n < p) : 0 ≤ kid ∧ kid < 4 := by
  have hj0 : 0 ≤ kid / 2 := by
    by_contra hneg
    have h1 : kid / 2 ≤ -1 := by omega
    have h2 : kid / 2 * n ≤ -1 * n := Int.mul_le_mul_of_nonneg_right h1 (le_of_lt hn)
    generalize kid / 2 * n = t at *
    omega
  have hj1 : kid / 2 ≤ 1 := by
    by_contra hbig
    have h1 : 2 ≤ kid / 2 := by omega
    have h2 : 2 * n ≤ kid / 2 * n := Int.mul_le_mul_of_nonneg_right h1 (le_of_lt hn)
    generalize kid / 2 * n = t at *
    omega
  omega

/-- **T8d**: `bms.sign` then `bms.assert_as_valid`.  `hser`: the serialization is a function of the group element
    (true of SEC octets of reduced affine pairs); `hX`: the x-coordinate screen of `Sig.assert_valid` is complete. -/
theorem sign_then_verify (L : Lawful o G) (E : Env α) (isX : ℤ → Bool)
    (hX : ∀ P, L.abs P ≠ 0 → isX (o.x P) = true)
    (hser : ∀ P Q c, L.abs P = L.abs Q → E.ser P c = E.ser Q c) (hp : o.p < 2 * o.n)
    (H : HashSpec) (mm : Bytes) (q : ℤ) (comp : Bool) (addr : Option Addr) (fuel : ℕ) (rf : ℕ) (r s : ℤ)
    (h : sign o E H mm q comp addr fuel = .ok (rf, r, s)) :
    (∀ t, accepts t rf = true →
        assertAsValid o E isX (challenge o.n mm) (addrOf E t (E.ser (o.mul q o.gen) comp)) rf r s = .ok ()) ∧
    (∃ t, ownType E (E.ser (o.mul q o.gen) comp) comp addr = some t ∧ accepts t rf = true) ∧
    27 ≤ rf ∧ rf ≤ 42 ∧ s ≤ o.n / 2 := by
  unfold sign at h
  cases hs : signRecMsg o H mm q none true fuel with
  | err e => rw [hs] at h; cases h
  | fuel => rw [hs] at h; cases h
  | ok v =>
    obtain ⟨r', s', kid⟩ := v
    rw [hs] at h
    simp only at h
    cases ht : ownType E (E.ser (o.mul q o.gen) comp) comp addr with
    | none => rw [ht] at h; cases h
    | some t =>
      rw [ht] at h
      simp only at h
      cases hf : flag kid.toNat comp t with
      | none => rw [hf] at h; cases h
      | some rf' =>
        rw [hf] at h
        simp only at h
        split at h
        · cases h
        · cases h
          obtain ⟨hv, hlow, Q', hrec, habs⟩ :=
            signRecMsg_recovers L H mm q none true fuel r s kid hs (o.mul q o.gen) (L.abs_mul q _) true
          obtain ⟨hr0, hr1, hs0, hs1, -⟩ := (verify_iff_SEC1 L _ _ r s).mp hv
          have hvf : verifyFull o isX (challenge o.n mm) (o.mul q o.gen) r s = true := by
            rw [verifyFull_eq_verify L isX hX]; exact hv
          have hkid := kid_range L.n_pos hp ⟨hr0, hr1⟩ (recover_prime_range hrec)
          obtain ⟨hin, hkidOf, hcomp, hacc⟩ := flag_table (kid := kid.toNat) (by omega) comp t hf
          have hkeq : ((keyIdOf rf : ℕ) : ℤ) = kid := by rw [hkidOf]; exact Int.toNat_of_nonneg hkid.1
          have hin' : 27 ≤ rf ∧ rf ≤ 42 := by
            unfold inRange at hin
            rw [Bool.and_eq_true, decide_eq_true_eq, decide_eq_true_eq] at hin
            exact hin
          refine ⟨fun t' hacc' => ?_, ⟨t, rfl, hacc⟩, hin'.1, hin'.2, hlow rfl⟩
          cases hsv : sigValid o isX r s with
          | error e => unfold verifyFull at hvf; rw [hsv] at hvf; cases hvf
          | ok u =>
            unfold assertAsValid
            rw [hkeq, hcomp]
            simp [hin, hsv, hrec, addrOf_fst, hacc', hser Q' (o.mul q o.gen) comp (by rw [habs, L.abs_mul])]

end Btc.Bms
