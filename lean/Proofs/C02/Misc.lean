import Model.C02.Rfc6979
import Model.C02.Bms
/-
T4 (RFC 6979: the nonce is in range; grinding returns the first low-r counter) and
T8 (BMS recovery flags) — core Lean only.
-/
namespace Btc.Rfc6979
open Btc

theorem loop_range (H : HashSpec) (n : Int) : ∀ (fuel : Nat) (k v : Bytes) (x : Int),
    loop H n fuel k v = some x → 0 < x ∧ x < n
  | 0, _, _, _, h => by simp [loop] at h
  | fuel + 1, k, v, x, h => by
    unfold loop at h
    simp only at h
    split at h
    · rename_i hc
      cases h
      exact hc
    · exact loop_range H n fuel _ _ x h

/-- T4a: whatever the HMAC, the key, the challenge and the extra entropy, a nonce that is returned is a
    valid one: `1 ≤ k ≤ n-1` -/
theorem nonce_range (H : HashSpec) (n c q : Int) (extra : Bytes) (fuel : Nat) (k : Int)
    (h : nonce H n c q extra fuel = some k) : 0 < k ∧ k < n :=
  loop_range H n fuel _ _ k h

/-- T4b: grinding answers the FIRST counter (from `c0`) whose signature has a low r: every earlier
    attempt was made and was high -/
theorem grindFrom_first {σ : Type} (attempt : Nat → Option σ) (isLow : σ → Bool) :
    ∀ (fuel c0 m : Nat) (sig : σ), grindFrom attempt isLow fuel c0 = some (m, sig) →
      attempt m = some sig ∧ isLow sig = true ∧ c0 ≤ m ∧
      ∀ j, c0 ≤ j → j < m → ∃ sj, attempt j = some sj ∧ isLow sj = false
  | 0, _, _, _, h => by simp [grindFrom] at h
  | fuel + 1, c0, m, sig, h => by
    unfold grindFrom at h
    split at h
    · cases h
    · rename_i s0 hs0
      split at h
      · rename_i hlow
        cases h
        exact ⟨hs0, hlow, Nat.le_refl _, fun j h1 h2 => by omega⟩
      · rename_i hlow
        obtain ⟨h1, h2, h3, h4⟩ := grindFrom_first attempt isLow fuel (c0 + 1) m sig h
        refine ⟨h1, h2, by omega, fun j hj1 hj2 => ?_⟩
        by_cases hj : j = c0
        · subst hj
          exact ⟨s0, hs0, by simpa using hlow⟩
        · exact h4 j (by omega) hj2

end Btc.Rfc6979

namespace Btc.Bms

def allTypes : List AddrType := [.p2pkh, .p2sh, .p2wpkh]

/-- T8a: the flag `bms.sign` writes is in 27..42, and `assert_as_valid` reads back from it the same
    key_id and compression and lets it speak for an address of the type it was written for -/
theorem flag_reads_back :
    ∀ kid ∈ List.range 4, ∀ comp ∈ [false, true], ∀ t ∈ allTypes, ∀ rf ∈ (flag kid comp t).toList,
      inRange rf = true ∧ keyIdOf rf = kid ∧ compressedOf rf = comp ∧ accepts t rf = true := by
  decide

/-- T8b: (address type, compression, key_id) ↦ flag is a bijection from the 16 admissible triples onto
    27..42: enumerated in order, the flags are exactly 27, 28, …, 42 -/
theorem flag_bijection :
    (allTypes.flatMap fun t => [false, true].flatMap fun comp => (List.range 4).filterMap fun kid => flag kid comp t)
      = List.range' 27 16 := by
  decide

/-- T8c: which flags may speak for which address type (the Electrum rule: the compressed-p2pkh flags
    31..34 also speak for the two segwit types; nothing outside 27..42 speaks for anything) -/
theorem accepts_table : ∀ rf ∈ List.range 70,
    (accepts .p2pkh rf = decide (27 ≤ rf ∧ rf ≤ 34)) ∧
    (accepts .p2sh rf = decide (31 ≤ rf ∧ rf ≤ 38)) ∧
    (accepts .p2wpkh rf = decide ((31 ≤ rf ∧ rf ≤ 34) ∨ (39 ≤ rf ∧ rf ≤ 42))) := by
  decide

end Btc.Bms
