import Proofs.E2E.C02
import Proofs.E2E.CofactorOne
import Proofs.C02.SignMsg
/-
End-to-end instances that were missing (AUDIT2 §C02): T2′, T6, T4c, T4d about `Btc.EC.ops C` itself for every
`CurveOk` curve (no cofactor hypothesis: they speak about keys `mult q G` or keys of the `n`-torsion carrier), their
secp256k1 instances, and — now that cofactor one is PROVED for secp256k1 (`Btc.E2E.secpCofactorOne`,
Proofs/E2E/CofactorOne.lean) — the hypothesis-free statement for ANY key the API accepts on secp256k1.

`signMsg_ok` / `signRecMsg_ok` say what an answer of the entry points IS (a run of `_sign_recoverable_` on the
challenge of the digest with a nonce in `1..n-1`), with no group hypothesis at all; the `_ec` theorems compose them
with C01's instance.
-/
namespace Btc.Rfc6979
open Btc Btc.Ecdsa

variable {α : Type} {o : GroupOps α}

/-- what `sign_` answers is a run of `_sign_recoverable_` (challenge of the digest, a nonce in `1..n-1`, the key it was
    given), and low-r on the grinding arm — no hypothesis on the group operations -/
theorem signMsg_ok (H : HashSpec) (m : Bytes) (q : ℤ) (k? : Option ℤ) (lowerS grind : Bool) (fuel : ℕ)
    (σ : ℤ × ℤ) (h : signMsg o H m q k? lowerS grind fuel = .ok σ) :
    m.length = H.hlen ∧ (0 < q ∧ q < o.n) ∧
    (∃ k kid, (0 < k ∧ k < o.n) ∧ signRecoverable o (challenge o.n m) q k lowerS = .ok (σ.1, σ.2, kid)) ∧
      (k? = none → grind = true → Gen.Ecdsa.is_low_r σ.1 (nsizeOf o.n) = true) := by
  unfold signMsg at h
  split at h
  · cases h
  rename_i hlen
  split at h
  · cases h
  rename_i hq
  have hq' := (scalarOk_iff _ _).mp (by simpa using hq)
  split at h
  · cases h
  simp only at h
  refine ⟨not_not.mp hlen, hq', ?_⟩
  cases k? with
  | some k =>
    simp only at h
    split at h
    · cases h
    · rename_i hk
      have hk' := (scalarOk_iff _ _).mp (by simpa using hk)
      cases hs : Ecdsa.sign o (challenge o.n m) q k lowerS with
      | error e => rw [hs] at h; cases h
      | ok σ' =>
        rw [hs] at h
        cases h
        obtain ⟨kid, hkid⟩ := sign_ok hs
        exact ⟨⟨k, kid, hk', hkid⟩, fun h0 => by cases h0⟩
  | none =>
    simp only at h
    split at h
    · cases h
    · rename_i cnt σ' hg
      cases h
      have hatt : ∃ cnt', attempt o H (challenge o.n m) q lowerS fuel cnt' = some (.ok σ) ∧
          (grind = true → Gen.Ecdsa.is_low_r σ.1 (nsizeOf o.n) = true) := by
        unfold grindLowR at hg
        beta_reduce at hg
        split at hg
        · rename_i hgr
          obtain ⟨h1, h2, -, -⟩ := grindFrom_first _ _ fuel 0 cnt _ hg
          exact ⟨cnt, h1, fun _ => h2⟩
        · rename_i hgr
          cases ha : attempt o H (challenge o.n m) q lowerS fuel 0 with
          | none => rw [ha] at hg; cases hg
          | some v =>
            rw [ha] at hg
            simp only [Option.map_some, Option.some.injEq, Prod.mk.injEq] at hg
            exact ⟨0, by rw [ha, hg.2], fun hh => absurd hh hgr⟩
      obtain ⟨cnt', ha, hlow⟩ := hatt
      unfold attempt at ha
      cases hn : nonce H o.n (challenge o.n m) q (grindEntropy cnt') fuel with
      | none => rw [hn] at ha; cases ha
      | some k =>
        rw [hn] at ha
        simp only [Option.map_some, Option.some.injEq] at ha
        have hk' := nonce_range H _ _ _ _ _ _ hn
        obtain ⟨kid, hkid⟩ := sign_ok ha
        exact ⟨⟨k, kid, hk', hkid⟩, fun _ hgr => hlow hgr⟩
    · cases h

/-- what `sign_recoverable_` answers is a run of `_sign_recoverable_` with a key and a nonce in `1..n-1` -/
theorem signRecMsg_ok (H : HashSpec) (m : Bytes) (q : ℤ) (k? : Option ℤ) (lowerS : Bool) (fuel : ℕ)
    (r s kid : ℤ) (h : signRecMsg o H m q k? lowerS fuel = .ok (r, s, kid)) :
    m.length = H.hlen ∧ (0 < q ∧ q < o.n) ∧
      ∃ k, (0 < k ∧ k < o.n) ∧ signRecoverable o (challenge o.n m) q k lowerS = .ok (r, s, kid) := by
  unfold signRecMsg at h
  split at h
  · cases h
  rename_i hlen
  split at h
  · cases h
  · rename_i hq
    have hq' := (scalarOk_iff _ _).mp (by simpa using hq)
    simp only at h
    refine ⟨not_not.mp hlen, hq', ?_⟩
    have fin : ∀ k : ℤ, 0 < k ∧ k < o.n →
        (match signRecoverable o (challenge o.n m) q k lowerS with
          | .ok σ => Out.ok σ | .error e => .err e) = .ok (r, s, kid) →
        ∃ k, (0 < k ∧ k < o.n) ∧ signRecoverable o (challenge o.n m) q k lowerS = .ok (r, s, kid) := by
      intro k hk hh
      cases hs : signRecoverable o (challenge o.n m) q k lowerS with
      | error e => rw [hs] at hh; cases hh
      | ok t =>
        rw [hs] at hh
        cases hh
        exact ⟨k, hk, hs⟩
    cases k? with
    | some k =>
      simp only at h
      split at h
      · cases h
      · rename_i hk
        exact fin k ((scalarOk_iff _ _).mp (by simpa using hk)) h
    | none =>
      simp only at h
      cases hn : nonce H o.n (challenge o.n m) q [] fuel with
      | none => rw [hn] at h; cases h
      | some k =>
        rw [hn] at h
        exact fin k (nonce_range H _ _ _ _ _ _ hn) h

end Btc.Rfc6979

namespace Btc.E2E
open Btc Btc.EC Btc.C01 Btc.Ecdsa

section
variable {p : ℕ} [Fact p.Prime] {C : Curve}

/-- **C02-T2′ on btclib's arithmetic, keys of the `n`-torsion carrier, no cofactor hypothesis**: the public boolean
(range screens, the executed x-coordinate screen `isXCoord C`, refusals turned into `False`) is the SEC 1 relation -/
theorem ecdsa_verify_api_is_sec1_ec (K : CurveOk p C) (c : ℤ) (Q : SubPt p C) (r s : ℤ) :
    verifyFull (EC.ops C) (isXCoord C) c Q.1 r s = true ↔ Grp.SEC1 (lawfulGroup_ec K) c Q r s := by
  have h := Grp.verifyFull_eq_verify (lawfulGroup_ec K) (isXCoord C)
    (fun P hP => isXCoord_complete K P hP) c Q r s
  rw [← Grp.verify_iff_SEC1 (lawfulGroup_ec K), ← h, verifyFull_opsSub]

/-- **C02-T6 on btclib's arithmetic**: two runs of `_sign_recoverable_` over `Btc.EC.ops C` with one key and one nonce,
different `s`: `crack` over `Btc.EC.ops C` answers exactly `(q, k)` -/
theorem ecdsa_crack_ec (K : CurveOk p C) {c1 c2 q k r1 s1 id1 r2 s2 id2 : ℤ}
    (hk : 0 < k ∧ k < C.n) (hq : 0 < q ∧ q < C.n)
    (h1 : signRecoverable (EC.ops C) c1 q k false = .ok (r1, s1, id1))
    (h2 : signRecoverable (EC.ops C) c2 q k false = .ok (r2, s2, id2)) (hne : s1 ≠ s2) :
    crack (EC.ops C) c1 r1 s1 c2 r2 s2 = .ok (q, k) :=
  Grp.crack_correct (lawfulGroup_ec K) (c1 := c1) (c2 := c2) (id1 := id1) (id2 := id2) hk hq h1 h2 hne

/-- **C02-T4c on btclib's arithmetic**: whatever `sign_` (explicit or RFC 6979 nonce, any HMAC, grinding on or off)
answers when run over `Btc.EC.ops C` verifies under `mult q G` for the challenge of the digest, is low-s when asked and
low-r on the grinding arm.  Any odd prime field. -/
theorem ecdsa_sign_msg_verifies_ec (K : CurveOk p C) (H : Rfc6979.HashSpec) (m : Bytes) (q : ℤ) (k? : Option ℤ)
    (lowerS grind : Bool) (fuel : ℕ) (σ : ℤ × ℤ)
    (h : Rfc6979.signMsg (EC.ops C) H m q k? lowerS grind fuel = .ok σ) :
    Ecdsa.verify (EC.ops C) (Rfc6979.challenge C.n m) ((EC.ops C).mul q C.G) σ.1 σ.2 = true ∧
      (lowerS = true → σ.2 ≤ C.n / 2) ∧
      (k? = none → grind = true → Gen.Ecdsa.is_low_r σ.1 (Rfc6979.nsizeOf C.n) = true) := by
  obtain ⟨-, -, ⟨k, kid, hk, hs⟩, hlow⟩ := Rfc6979.signMsg_ok H m q k? lowerS grind fuel σ h
  have := ecdsa_sign_verifies_ec K hk hs
  exact ⟨this.1, this.2, hlow⟩

/-- **C02-T4d on btclib's arithmetic**: `sign_recoverable_`'s `(r, s)` verifies under `mult q G` and its `key_id`
recovers a pair `==` to `mult q G` (recovery: `p ≡ 3 mod 4`, `lift_x`) -/
theorem ecdsa_sign_recoverable_msg_recovers_ec (K : CurveOk p C) (h34 : p % 4 = 3) (H : Rfc6979.HashSpec)
    (m : Bytes) (q : ℤ) (k? : Option ℤ) (lowerS : Bool) (fuel : ℕ) (r s kid : ℤ)
    (h : Rfc6979.signRecMsg (EC.ops C) H m q k? lowerS fuel = .ok (r, s, kid)) (primeOrder : Bool) :
    Ecdsa.verify (EC.ops C) (Rfc6979.challenge C.n m) ((EC.ops C).mul q C.G) r s = true ∧
      (lowerS = true → s ≤ C.n / 2) ∧
      ∃ Q', recover (EC.ops C) primeOrder kid (Rfc6979.challenge C.n m) r s false = .ok Q' ∧
        (EC.ops C).eq Q' ((EC.ops C).mul q C.G) = true := by
  obtain ⟨-, hq, k, hk, hs⟩ := Rfc6979.signRecMsg_ok H m q k? lowerS fuel r s kid h
  have h1 := ecdsa_sign_verifies_ec K hk hs
  exact ⟨h1.1, h1.2, ecdsa_recover_signer_ec K h34 hk hq hs primeOrder false (fun h0 => by cases h0)⟩

/-- **recover then verify, on btclib's arithmetic**: a pair `_recover_pub_key_` answers over `Btc.EC.ops C` for ANY
`(key_id, c, r, s)` with `r, s ∈ 1..n-1` is a key under which the verifier over `Btc.EC.ops C` accepts `(r, s)` -/
theorem ecdsa_recover_then_verify_ec (K : CurveOk p C) (h34 : p % 4 = 3) {primeOrder lowerS : Bool} {kid c r s : ℤ}
    {Q : SubPt p C} (hr : 0 < r ∧ r < C.n) (hs : 0 < s ∧ s < C.n)
    (h : recover (opsSub K) primeOrder kid c r s lowerS = .ok Q) :
    recover (EC.ops C) primeOrder kid c r s lowerS = .ok Q.1 ∧ Ecdsa.verify (EC.ops C) c Q.1 r s = true :=
  ⟨recover_opsSub K _ _ _ _ _ _ _ h, recover_sound (lawful_ec K h34) hr hs h⟩

end

/-! ## secp256k1: nothing assumed (primality by Pratt certificates, `CurveOk` by kernel evaluation, cofactor one
proved by `Btc.E2E.secpCofactorOne`) -/

/-- **T2 + T2′ on secp256k1 for ANY key the API accepts, hypothesis-free** -/
theorem ecdsa_verify_api_is_sec1_secp256k1_any_key (c : ℤ) (Q : Point) (hk : pubKeyOk secp256k1 Q = true) (r s : ℤ) :
    (verifyFull (EC.ops secp256k1) (isXCoord secp256k1) c Q r s = true ↔
      Ecdsa.verify (EC.ops secp256k1) c Q r s = true) ∧
    (Ecdsa.verify (EC.ops secp256k1) c Q r s = true ↔
      Grp.SEC1 secpLawfulG c ⟨Q, @inSubOf secp256k1_p ⟨secp256k1_p_prime⟩ secp256k1 secpCofactorOne _
        (@valid_of_pubKeyOk secp256k1_p ⟨secp256k1_p_prime⟩ secp256k1 secpOk Q hk).1
        (@valid_of_pubKeyOk secp256k1_p ⟨secp256k1_p_prime⟩ secp256k1 secpOk Q hk).2.1⟩ r s) :=
  ecdsa_verify_api_is_sec1_secp256k1 secpCofactorOne c Q hk r s

theorem ecdsa_crack_secp256k1 {c1 c2 q k r1 s1 id1 r2 s2 id2 : ℤ}
    (hk : 0 < k ∧ k < secp256k1.n) (hq : 0 < q ∧ q < secp256k1.n)
    (h1 : signRecoverable (EC.ops secp256k1) c1 q k false = .ok (r1, s1, id1))
    (h2 : signRecoverable (EC.ops secp256k1) c2 q k false = .ok (r2, s2, id2)) (hne : s1 ≠ s2) :
    crack (EC.ops secp256k1) c1 r1 s1 c2 r2 s2 = .ok (q, k) :=
  @ecdsa_crack_ec secp256k1_p ⟨secp256k1_p_prime⟩ secp256k1 secpOk c1 c2 q k r1 s1 id1 r2 s2 id2 hk hq h1 h2 hne

theorem ecdsa_sign_msg_verifies_secp256k1 (H : Rfc6979.HashSpec) (m : Bytes) (q : ℤ) (k? : Option ℤ)
    (lowerS grind : Bool) (fuel : ℕ) (σ : ℤ × ℤ)
    (h : Rfc6979.signMsg (EC.ops secp256k1) H m q k? lowerS grind fuel = .ok σ) :
    Ecdsa.verify (EC.ops secp256k1) (Rfc6979.challenge secp256k1.n m) ((EC.ops secp256k1).mul q secp256k1.G)
        σ.1 σ.2 = true ∧
      (lowerS = true → σ.2 ≤ secp256k1.n / 2) ∧
      (k? = none → grind = true → Gen.Ecdsa.is_low_r σ.1 (Rfc6979.nsizeOf secp256k1.n) = true) :=
  @ecdsa_sign_msg_verifies_ec secp256k1_p ⟨secp256k1_p_prime⟩ secp256k1 secpOk H m q k? lowerS grind fuel σ h

theorem ecdsa_sign_recoverable_msg_recovers_secp256k1 (H : Rfc6979.HashSpec)
    (m : Bytes) (q : ℤ) (k? : Option ℤ) (lowerS : Bool) (fuel : ℕ) (r s kid : ℤ)
    (h : Rfc6979.signRecMsg (EC.ops secp256k1) H m q k? lowerS fuel = .ok (r, s, kid)) (primeOrder : Bool) :
    Ecdsa.verify (EC.ops secp256k1) (Rfc6979.challenge secp256k1.n m) ((EC.ops secp256k1).mul q secp256k1.G) r s
        = true ∧
      (lowerS = true → s ≤ secp256k1.n / 2) ∧
      ∃ Q', recover (EC.ops secp256k1) primeOrder kid (Rfc6979.challenge secp256k1.n m) r s false = .ok Q' ∧
        (EC.ops secp256k1).eq Q' ((EC.ops secp256k1).mul q secp256k1.G) = true :=
  @ecdsa_sign_recoverable_msg_recovers_ec secp256k1_p ⟨secp256k1_p_prime⟩ secp256k1 secpOk secp256k1_h34 H m q k?
    lowerS fuel r s kid h primeOrder

end Btc.E2E
