import Proofs.C02.Basic
/-
ECDSA over a lawful group: completeness (T1), exactness (T2), recovery (T3), nonce-reuse key
extraction (T6).  `o : GroupOps α`, `L : Lawful o G`.
-/
namespace Btc.Ecdsa
open Btc Btc.EC

variable {α G : Type} [AddCommGroup G] {o : GroupOps α} (L : Lawful o G)

/-- the parity of `y` is a function of the group element (true of affine points of an elliptic curve,
    where the representation of a group element is unique).  Needed only by key recovery, which reads
    the parity bit of `key_id`; it follows from `Lawful.y_congr` (`yParity` below). -/
def YParity (L : Lawful o G) : Prop :=
  ∀ P Q, L.abs P ≠ 0 → L.abs P = L.abs Q → o.y P % 2 = o.y Q % 2

/-- `YParity` is the law `Lawful.y_congr` (added to the shared bundle by C16) -/
theorem yParity (L : Lawful o G) : YParity L := by
  intro P Q hP h
  have := L.y_congr P Q h hP
  have h1 := Int.emod_two_eq_zero_or_one (o.y P)
  have h2 := Int.emod_two_eq_zero_or_one (o.y Q)
  omega

/-- the x-coordinate is a function of the group element up to sign -/
theorem x_congr {P Q : α} (hP : L.abs P ≠ 0) (h : L.abs Q = L.abs P ∨ L.abs Q = - L.abs P) :
    o.x Q = o.x P := by
  have hQ : L.abs Q ≠ 0 := by
    rcases h with h | h
    · rw [h]; exact hP
    · rw [h]; exact neg_ne_zero.mpr hP
  apply (L.x_eq_iff Q P hQ hP).mpr h

theorem abs_verifyPoint (c r w : ℤ) (Q : α) :
    L.abs (verifyPoint o c Q r w) = (r * w % o.n) • L.abs Q + (c * w % o.n) • L.abs o.gen := by
  unfold verifyPoint
  rw [L.abs_dmul]

/-- under the key `q·G` the recomputed point is `(w (c + r q))·G` -/
theorem abs_verifyPoint_key (c q r w : ℤ) (Q : α) (hQ : L.abs Q = q • L.abs o.gen) :
    L.abs (verifyPoint o c Q r w) = (w * (c + r * q)) • L.abs o.gen := by
  rw [abs_verifyPoint, hQ, ← mul_zsmul, ← add_zsmul]
  apply abs_zsmul_congr L
  push_cast
  rw [cast_emod L, cast_emod L]
  push_cast
  ring

/-- what a successful `_sign_recoverable_` computed -/
theorem signRecoverable_ok {c q k : ℤ} {lowerS : Bool} {r s kid : ℤ}
    (h : signRecoverable o c q k lowerS = .ok (r, s, kid)) :
    ∃ ki s0 : ℤ, modInv k o.n = some ki ∧ r = o.x (o.mul k o.gen) % o.n ∧ r ≠ 0 ∧
      s0 = ki * (c + r * q) % o.n ∧ s0 ≠ 0 ∧
      ((lowerS = true ∧ s0 > o.n / 2 ∧ s = o.n - s0 ∧
          kid = flipBit0 (2 * (o.x (o.mul k o.gen) / o.n) + o.y (o.mul k o.gen) % 2)) ∨
       (¬ (lowerS = true ∧ s0 > o.n / 2) ∧ s = s0 ∧
          kid = 2 * (o.x (o.mul k o.gen) / o.n) + o.y (o.mul k o.gen) % 2)) := by
  unfold signRecoverable at h
  simp only at h
  split at h
  · cases h
  · rename_i hr
    split at h
    · cases h
    · rename_i ki hki
      split at h
      · cases h
      · rename_i hs
        refine ⟨ki, ki * (c + o.x (o.mul k o.gen) % o.n * q) % o.n, hki, ?_⟩
        split at h
        · rename_i hl
          injection h with h
          simp only [Prod.mk.injEq] at h
          obtain ⟨h1, h2, h3⟩ := h
          subst h1
          exact ⟨rfl, hr, rfl, hs, Or.inl ⟨hl.1, hl.2, h2.symm, h3.symm⟩⟩
        · rename_i hl
          injection h with h
          simp only [Prod.mk.injEq] at h
          obtain ⟨h1, h2, h3⟩ := h
          subst h1
          exact ⟨rfl, hr, rfl, hs, Or.inr ⟨hl, h2.symm, h3.symm⟩⟩

/-- the generic acceptance lemma: if, for the inverse `w` of `s`, the recomputed point is `±K0` with
    `K0 ≠ 0` and `r = x(K0) mod n`, the core accepts -/
theorem verifyCore_ok_of {c r s : ℤ} {Q K0 : α} (hs : 0 < s ∧ s < o.n) (hK0 : L.abs K0 ≠ 0)
    (hr : r = o.x K0 % o.n)
    (hK : ∀ w : ℤ, (s : ZMod (ord o)) * w = 1 →
      L.abs (verifyPoint o c Q r w) = L.abs K0 ∨ L.abs (verifyPoint o c Q r w) = - L.abs K0) :
    verifyCore o c Q r s false = .ok () := by
  obtain ⟨w, hw, -, -, hw1⟩ := modInv_n L (cast_ne_zero L hs.1 hs.2)
  have hx := x_congr L hK0 (hK w hw1)
  have hnz : L.abs (verifyPoint o c Q r w) ≠ 0 := by
    rcases hK w hw1 with h | h
    · rw [h]; exact hK0
    · rw [h]; exact neg_ne_zero.mpr hK0
  have hz : o.isZero (verifyPoint o c Q r w) = false := by
    cases hzz : o.isZero (verifyPoint o c Q r w)
    · rfl
    · exact absurd ((L.isZero_iff _).mp hzz) hnz
  unfold verifyCore
  simp only [hw]
  rw [hz, hx, ← hr]
  simp

theorem abs_verifyPoint' (c r w : ℤ) (Q : α) :
    L.abs (verifyPoint o c Q r w) = (r * w) • L.abs Q + (c * w) • L.abs o.gen := by
  rw [abs_verifyPoint]
  congr 1
  · exact abs_zsmul_congr L Q (cast_emod L _)
  · exact abs_zsmul_congr L o.gen (cast_emod L _)

include L in
theorem emod_range (a : ℤ) (h : a % o.n ≠ 0) : 0 < a % o.n ∧ a % o.n < o.n := by
  have hn := L.n_pos
  have h1 := Int.emod_nonneg a (ne_of_gt hn)
  have h2 := Int.emod_lt_of_pos a hn
  omega

/-- the nonce point `k·G` is not the identity -/
theorem nonce_point_ne_zero {k : ℤ} (hk : 0 < k ∧ k < o.n) : L.abs (o.mul k o.gen) ≠ 0 := by
  rw [L.abs_mul]
  exact zsmul_ne_zero L o.gen L.gen_ne_zero (cast_ne_zero L hk.1 hk.2)

/-- T1 core: a signature made with nonce `k` makes the verifier recompute `±k·G` -/
theorem sign_core {c q k : ℤ} {lowerS : Bool} {r s kid : ℤ} (hk : 0 < k ∧ k < o.n)
    (Q : α) (hQ : L.abs Q = q • L.abs o.gen)
    (h : signRecoverable o c q k lowerS = .ok (r, s, kid)) :
    (0 < r ∧ r < o.n) ∧ (0 < s ∧ s < o.n) ∧ (lowerS = true → s ≤ o.n / 2) ∧
    verifyCore o c Q r s false = .ok () := by
  obtain ⟨ki, s0, hki, hr, hr0, hs0, hs0nz, hcase⟩ := signRecoverable_ok h
  have hn := L.n_pos
  obtain ⟨ki', hki', -, -, hkk⟩ := modInv_n L (cast_ne_zero L hk.1 hk.2)
  rw [hki] at hki'
  cases hki'
  have hrr : 0 < r ∧ r < o.n := by rw [hr]; exact emod_range L _ (by rw [← hr]; exact hr0)
  have hs0r : 0 < s0 ∧ s0 < o.n := by rw [hs0]; exact emod_range L _ (by rw [← hs0]; exact hs0nz)
  have hs0c : (s0 : ZMod (ord o)) = ki * (c + r * q) := by
    rw [hs0, cast_emod L]; push_cast; ring
  have hK0 := nonce_point_ne_zero L hk
  rcases hcase with ⟨hl, hgt, hs, -⟩ | ⟨hl, hs, -⟩
  · have hsr : 0 < s ∧ s < o.n := by omega
    refine ⟨hrr, hsr, fun _ => by omega, ?_⟩
    apply verifyCore_ok_of L hsr hK0 hr
    intro w hw
    right
    rw [abs_verifyPoint_key L c q r w Q hQ, L.abs_mul, ← neg_zsmul]
    apply abs_zsmul_congr L
    have hsc : (s : ZMod (ord o)) = - s0 := by rw [hs]; push_cast; rw [cast_n L]; ring
    rw [hsc, hs0c] at hw
    push_cast
    linear_combination (-((w : ZMod (ord o)) * (c + r * q))) * hkk - (k : ZMod (ord o)) * hw
  · have hsr : 0 < s ∧ s < o.n := by omega
    refine ⟨hrr, hsr, fun hls => ?_, ?_⟩
    · have : ¬ s0 > o.n / 2 := fun hh => hl ⟨hls, hh⟩
      omega
    apply verifyCore_ok_of L hsr hK0 hr
    intro w hw
    left
    rw [abs_verifyPoint_key L c q r w Q hQ, L.abs_mul]
    apply abs_zsmul_congr L
    rw [hs, hs0c] at hw
    push_cast
    linear_combination (-((w : ZMod (ord o)) * (c + r * q))) * hkk + (k : ZMod (ord o)) * hw

/-- T1 (completeness): every signature `_sign_recoverable_` returns — with either `lower_s` — verifies
    under any representation `Q` of the key `q·G`, and is low-s when asked. -/
theorem sign_verifies {c q k : ℤ} {lowerS : Bool} {r s kid : ℤ} (hk : 0 < k ∧ k < o.n)
    (Q : α) (hQ : L.abs Q = q • L.abs o.gen)
    (h : signRecoverable o c q k lowerS = .ok (r, s, kid)) :
    verify o c Q r s = true ∧ (lowerS = true → s ≤ o.n / 2) := by
  obtain ⟨hr, hs, hl, hv⟩ := sign_core L hk Q hQ h
  refine ⟨?_, hl⟩
  unfold verify
  rw [hv]
  simp [hr, hs]

/-- SEC 1 v2 §4.1.4 over the abstract group: `r, s ∈ 1..n-1` and, with `w = s⁻¹ (mod n)`, the group
    element `K = (r w)·Q + (c w)·G` is not the identity and `x(K) mod n = r`. -/
def SEC1 (L : Lawful o G) (c : ℤ) (Q : α) (r s : ℤ) : Prop :=
  0 < r ∧ r < o.n ∧ 0 < s ∧ s < o.n ∧
  ∃ w : ℤ, (s : ZMod (ord o)) * w = 1 ∧
  ∃ K : α, L.abs K = (r * w) • L.abs Q + (c * w) • L.abs o.gen ∧ L.abs K ≠ 0 ∧ o.x K % o.n = r

/-- T2 (exactness): the verifier accepts exactly the SEC 1 relation -/
theorem verify_iff_SEC1 (c : ℤ) (Q : α) (r s : ℤ) : verify o c Q r s = true ↔ SEC1 L c Q r s := by
  constructor
  · intro h
    unfold verify at h
    simp only [Bool.and_eq_true, decide_eq_true_eq] at h
    obtain ⟨⟨hr, hs⟩, hv⟩ := h
    obtain ⟨w, hw, -, -, hw1⟩ := modInv_n L (cast_ne_zero L hs.1 hs.2)
    refine ⟨hr.1, hr.2, hs.1, hs.2, w, hw1, verifyPoint o c Q r w, abs_verifyPoint' L c r w Q, ?_⟩
    unfold verifyCore at hv
    simp only [hw, Bool.false_eq_true, false_and, if_false] at hv
    have hz : o.isZero (verifyPoint o c Q r w) = false := by
      cases hzz : o.isZero (verifyPoint o c Q r w)
      · rfl
      · simp [hzz] at hv
    have hx : r = o.x (verifyPoint o c Q r w) % o.n := by
      by_contra hne
      simp [hz, hne] at hv
    refine ⟨fun h0 => ?_, hx.symm⟩
    rw [(L.isZero_iff _).mpr h0] at hz
    cases hz
  · rintro ⟨hr0, hr1, hs0, hs1, w, hw, K, hK, hKnz, hx⟩
    have hv : verifyCore o c Q r s false = .ok () := by
      apply verifyCore_ok_of L ⟨hs0, hs1⟩ hKnz hx.symm
      intro w' hw'
      left
      rw [abs_verifyPoint' L, hK]
      have e : (w' : ZMod (ord o)) = w := by
        linear_combination (w : ZMod (ord o)) * hw' - (w' : ZMod (ord o)) * hw
      congr 1
      · apply abs_zsmul_congr L; push_cast; rw [e]
      · apply abs_zsmul_congr L; push_cast; rw [e]
    unfold verify
    rw [hv]
    simp [hr0, hr1, hs0, hs1]

/-! ## T3: key recovery -/

/-- the even lift of `x(K)` is `K` or `-K`, and the parity of `y(K)` says which -/
theorem lift_parity (hy : YParity L) {K Ke : α} (hK : L.abs K ≠ 0) (hKe : L.abs Ke ≠ 0)
    (hx : o.x Ke = o.x K) (hpar : o.y Ke % 2 = 0) :
    (o.y K % 2 = 0 ∧ L.abs Ke = L.abs K) ∨ (o.y K % 2 = 1 ∧ L.abs Ke = - L.abs K) := by
  rcases (L.x_eq_iff Ke K hKe hK).mp hx with h | h
  · left
    exact ⟨by rw [← hy Ke K hKe h]; exact hpar, h⟩
  · right
    have h' : L.abs Ke = L.abs (o.neg K) := by rw [L.abs_neg]; exact h
    have h2 : o.y (o.neg K) % 2 = 0 := by rw [← hy Ke (o.neg K) hKe h']; exact hpar
    have h3 := (L.y_neg K hK).mp h2
    exact ⟨by omega, h⟩

/-- T3: from the `(r, s, key_id)` that signing returns, recovery answers (a representation of) the
    signer's key `q·G` — whatever `x_K // n` was, after the low-s flip too, on the prime-order arm and
    on the cofactor arm (whose re-verification then passes). -/
theorem recover_signer (hy : YParity L) {c q k : ℤ} {lowerS : Bool} {r s kid : ℤ}
    (hk : 0 < k ∧ k < o.n) (hq : 0 < q ∧ q < o.n)
    (h : signRecoverable o c q k lowerS = .ok (r, s, kid))
    (primeOrder lowerS' : Bool) (hl' : lowerS' = true → lowerS = true) :
    ∃ Q', recover o primeOrder kid c r s lowerS' = .ok Q' ∧ L.abs Q' = q • L.abs o.gen := by
  obtain ⟨ki, s0, hki, hr, hr0, hs0, hs0nz, hcase⟩ := signRecoverable_ok h
  have hn := L.n_pos
  obtain ⟨ki', hki', -, -, hkk⟩ := modInv_n L (cast_ne_zero L hk.1 hk.2)
  rw [hki] at hki'
  cases hki'
  have hrr : 0 < r ∧ r < o.n := by rw [hr]; exact emod_range L _ (by rw [← hr]; exact hr0)
  have hs0c : (s0 : ZMod (ord o)) = ki * (c + r * q) := by
    rw [hs0, cast_emod L]; push_cast; ring
  have hK0 := nonce_point_ne_zero L hk
  obtain ⟨r1, hr1, -, -, hrr1⟩ := modInv_n L (cast_ne_zero L hrr.1 hrr.2)
  have hxr := L.x_range (o.mul k o.gen) hK0
  have hyb := Int.emod_two_eq_zero_or_one (o.y (o.mul k o.gen))
  have hlow : ¬ (lowerS' = true ∧ s > o.n / 2) := by
    rintro ⟨h1, h2⟩
    have := (sign_core L hk (o.mul q o.gen) (L.abs_mul q o.gen) h).2.2.1 (hl' h1)
    omega
  -- notation
  generalize hKdef : o.mul k o.gen = K at *
  generalize hyK : o.y K % 2 = b at *
  generalize hxq : o.x K / o.n = a at *
  have hxK : r + a * o.n = o.x K := by
    rw [hr, ← hxq]; have := Int.emod_add_mul_ediv (o.x K) o.n; linarith
  -- key_id decodes to (a, bit) and the bit selects ±K accordingly
  have hdec : kid / 2 = a ∧ ∃ σ : ℤ, (σ = 1 ∨ σ = -1) ∧ (s : ZMod (ord o)) = σ * s0 ∧
      ((σ = 1 ∧ kid % 2 = b) ∨ (σ = -1 ∧ kid % 2 = 1 - b)) := by
    rcases hcase with ⟨-, -, hs, hkid⟩ | ⟨-, hs, hkid⟩
    · refine ⟨?_, -1, Or.inr rfl, ?_, Or.inr ⟨rfl, ?_⟩⟩
      · rw [hkid]; unfold flipBit0; split <;> omega
      · rw [hs]; push_cast; rw [cast_n L]; ring
      · rw [hkid]; unfold flipBit0; split <;> omega
    · refine ⟨by omega, 1, Or.inl rfl, by rw [hs]; push_cast; ring, Or.inl ⟨rfl, by omega⟩⟩
  obtain ⟨hj, σ, hσ, hsσ, hbit⟩ := hdec
  unfold recover
  simp only [hlow, if_false, hj, hxK]
  have hrange : ¬ (primeOrder = true ∧ ¬ (0 ≤ o.x K ∧ o.x K < o.p)) := by
    rintro ⟨-, h2⟩; exact h2 hxr
  simp only [hrange, if_false, hr1]
  have hxK' : (if primeOrder = true then o.x K else o.x K % o.p) = o.x K := by
    split
    · rfl
    · exact Int.emod_eq_of_lt hxr.1 hxr.2
  rw [hxK']
  cases hlift : o.liftX (o.x K) with
  | none => exact absurd rfl (L.liftX_none _ hlift K hK0)
  | some Ke =>
    obtain ⟨hKe0, hKex, hKepar⟩ := L.liftX_some _ _ hlift
    simp only
    have hK' : L.abs (if kid % 2 = 1 then o.neg Ke else Ke) = σ • L.abs K := by
      rcases lift_parity L hy hK0 hKe0 hKex hKepar with ⟨hb, he⟩ | ⟨hb, he⟩
      · rw [hyK] at hb
        rcases hbit with ⟨h1, h2⟩ | ⟨h1, h2⟩
        · have : ¬ kid % 2 = 1 := by omega
          rw [if_neg this, he, h1, one_zsmul]
        · have : kid % 2 = 1 := by omega
          rw [if_pos this, L.abs_neg, he, h1, neg_zsmul, one_zsmul]
      · rw [hyK] at hb
        rcases hbit with ⟨h1, h2⟩ | ⟨h1, h2⟩
        · have : kid % 2 = 1 := by omega
          rw [if_pos this, L.abs_neg, he, h1, one_zsmul, neg_neg]
        · have : ¬ kid % 2 = 1 := by omega
          rw [if_neg this, he, h1, neg_zsmul, one_zsmul]
    generalize hK'def : (if kid % 2 = 1 then o.neg Ke else Ke) = K' at *
    have hQ' : L.abs (o.dmul (r1 * s % o.n) K' (-r1 * c % o.n) o.gen) = q • L.abs o.gen := by
      rw [L.abs_dmul, hK', ← hKdef, L.abs_mul, ← mul_zsmul, ← mul_zsmul, ← add_zsmul]
      apply abs_zsmul_congr L
      push_cast
      rw [cast_emod L, cast_emod L]
      push_cast
      rw [hsσ, hs0c]
      rcases hσ with h1 | h1 <;> subst h1 <;> push_cast <;>
        linear_combination (r1 : ZMod (ord o)) * (c + r * q) * hkk + (q : ZMod (ord o)) * hrr1
    have hQnz : L.abs (o.dmul (r1 * s % o.n) K' (-r1 * c % o.n) o.gen) ≠ 0 := by
      rw [hQ']; exact zsmul_ne_zero L o.gen L.gen_ne_zero (cast_ne_zero L hq.1 hq.2)
    have hz : o.isZero (o.dmul (r1 * s % o.n) K' (-r1 * c % o.n) o.gen) = false := by
      cases hzz : o.isZero (o.dmul (r1 * s % o.n) K' (-r1 * c % o.n) o.gen)
      · rfl
      · exact absurd ((L.isZero_iff _).mp hzz) hQnz
    rw [hz]
    simp only [Bool.false_eq_true, if_false]
    cases primeOrder with
    | true => exact ⟨_, rfl, hQ'⟩
    | false =>
      have hv := (sign_core L (by rw [hKdef] at *; exact hk) _ hQ' (by rw [← hKdef] at *; exact h)).2.2.2
      simp only [Bool.false_eq_true, if_false]
      rw [hv]
      exact ⟨_, rfl, hQ'⟩

/-! ## T6: two signatures sharing a nonce give up the key -/

include L in
theorem crack_correct {c1 c2 q k r1 s1 id1 r2 s2 id2 : ℤ} (hk : 0 < k ∧ k < o.n) (hq : 0 < q ∧ q < o.n)
    (h1 : signRecoverable o c1 q k false = .ok (r1, s1, id1))
    (h2 : signRecoverable o c2 q k false = .ok (r2, s2, id2)) (hne : s1 ≠ s2) :
    crack o c1 r1 s1 c2 r2 s2 = .ok (q, k) := by
  obtain ⟨ki, s01, hki, hr1, hr10, hs01, hs01nz, hcase1⟩ := signRecoverable_ok h1
  obtain ⟨ki2, s02, hki2, hr2, hr20, hs02, hs02nz, hcase2⟩ := signRecoverable_ok h2
  rw [hki] at hki2
  cases hki2
  have hn := L.n_pos
  obtain ⟨ki', hki', -, -, hkk⟩ := modInv_n L (cast_ne_zero L hk.1 hk.2)
  rw [hki] at hki'
  cases hki'
  have e1 : s1 = s01 := by
    rcases hcase1 with ⟨h, -⟩ | ⟨-, h, -⟩
    · cases h
    · exact h
  have e2 : s2 = s02 := by
    rcases hcase2 with ⟨h, -⟩ | ⟨-, h, -⟩
    · cases h
    · exact h
  subst e1 e2
  have hrr : r1 = r2 := by rw [hr1, hr2]
  subst hrr
  have hr1r : 0 < r1 ∧ r1 < o.n := by rw [hr1]; exact emod_range L _ (by rw [← hr1]; exact hr10)
  have hs1r : 0 < s1 ∧ s1 < o.n := by rw [hs01]; exact emod_range L _ (by rw [← hs01]; exact hs01nz)
  have hs2r : 0 < s2 ∧ s2 < o.n := by rw [hs02]; exact emod_range L _ (by rw [← hs02]; exact hs02nz)
  have hs1c : (s1 : ZMod (ord o)) = ki * (c1 + r1 * q) := by
    rw [hs01, cast_emod L]; push_cast; ring
  have hs2c : (s2 : ZMod (ord o)) = ki * (c2 + r1 * q) := by
    rw [hs02, cast_emod L]; push_cast; ring
  have hdne : ((s1 - s2 : ℤ) : ZMod (ord o)) ≠ 0 := by
    intro h0
    apply hne
    apply eq_of_cast_eq L ⟨le_of_lt hs1r.1, hs1r.2⟩ ⟨le_of_lt hs2r.1, hs2r.2⟩
    push_cast at h0
    linear_combination h0
  obtain ⟨d, hd, -, -, hdd⟩ := modInv_n L hdne
  obtain ⟨ri, hri, -, -, hrri⟩ := modInv_n L (cast_ne_zero L hr1r.1 hr1r.2)
  push_cast at hdd
  have hk' : (c1 - c2) * d % o.n = k := by
    apply eq_of_cast_eq L ⟨Int.emod_nonneg _ (ne_of_gt hn), Int.emod_lt_of_pos _ hn⟩ ⟨le_of_lt hk.1, hk.2⟩
    rw [cast_emod L]
    push_cast
    rw [hs1c, hs2c] at hdd
    linear_combination (-(c1 - c2 : ZMod (ord o)) * d) * hkk + (k : ZMod (ord o)) * hdd
  have hq' : (s2 * k - c2) * ri % o.n = q := by
    apply eq_of_cast_eq L ⟨Int.emod_nonneg _ (ne_of_gt hn), Int.emod_lt_of_pos _ hn⟩ ⟨le_of_lt hq.1, hq.2⟩
    rw [cast_emod L]
    push_cast
    rw [hs2c]
    linear_combination ((c2 + r1 * q : ZMod (ord o)) * ri) * hkk + (q : ZMod (ord o)) * hrri
  unfold crack
  simp [hne, hd, hri, hk', hq']

/-! ## `Sig.assert_valid`'s x-coordinate screen never changes the verdict -/

theorem congruent_of (isX : ℤ → Bool) (hn : 0 < o.n) : ∀ (fuel : ℕ) (x : ℤ) (j : ℕ), j < fuel →
    x + j * o.n < o.p → isX (x + j * o.n) = true → congruent o isX fuel x = true
  | 0, _, _, h, _, _ => by omega
  | fuel + 1, x, j, hj, hp, hx => by
    unfold congruent
    have hjn : 0 ≤ (j : ℤ) * o.n := by positivity
    have hxp : x < o.p := by omega
    rw [if_pos hxp]
    by_cases hxx : isX x = true
    · rw [if_pos hxx]
    · rw [if_neg hxx]
      cases j with
      | zero => simp at hx; exact absurd hx hxx
      | succ j' =>
        apply congruent_of isX hn fuel (x + o.n) j' (by omega)
        · push_cast at hp ⊢; linarith
        · push_cast at hx ⊢
          rw [show x + o.n + j' * o.n = x + (j' + 1) * o.n by ring]; exact hx

/-- `dsa.verify_` first validates the `Sig` — ranges, and "r is congruent to an x-coordinate" — before the
    equation.  If the x-coordinate test `isX` accepts every x-coordinate of a non-identity element, the
    screen is redundant: the boolean the API answers is exactly the SEC 1 predicate `verify`. -/
theorem verifyFull_eq_verify (isX : ℤ → Bool) (hX : ∀ P, L.abs P ≠ 0 → isX (o.x P) = true)
    (c : ℤ) (Q : α) (r s : ℤ) : verifyFull o isX c Q r s = verify o c Q r s := by
  by_cases hv : verify o c Q r s = true
  · rw [hv]
    obtain ⟨hr0, hr1, hs0, hs1, w, -, K, -, hK, hx⟩ := (verify_iff_SEC1 L c Q r s).mp hv
    have hcore : verifyCore o c Q r s false = .ok () := by
      unfold verify at hv
      simp only [Bool.and_eq_true] at hv
      cases hc : verifyCore o c Q r s false with
      | ok u => cases u; rfl
      | error e => rw [hc] at hv; simp at hv
    have hxr := L.x_range K hK
    have hn := L.n_pos
    have hcong : congruent o isX (o.p / o.n + 1).toNat r = true := by
      have hj0 : 0 ≤ o.x K / o.n := Int.ediv_nonneg hxr.1 (le_of_lt hn)
      have hdecomp : r + ((o.x K / o.n).toNat : ℤ) * o.n = o.x K := by
        rw [Int.toNat_of_nonneg hj0, ← hx]
        have := Int.emod_add_mul_ediv (o.x K) o.n
        linarith
      apply congruent_of isX hn _ r (o.x K / o.n).toNat
      · have h1 : o.x K / o.n ≤ o.p / o.n := Int.ediv_le_ediv hn (le_of_lt hxr.2)
        omega
      · rw [hdecomp]; exact hxr.2
      · rw [hdecomp]; exact hX K hK
    unfold verifyFull sigValid
    simp [hr0, hr1, hs0, hs1, hcong, hcore]
  · have hv' : verify o c Q r s = false := by simpa using hv
    rw [hv']
    unfold verifyFull
    cases hsv : sigValid o isX r s with
    | error e => rfl
    | ok u =>
      have hrs : (0 < r ∧ r < o.n) ∧ (0 < s ∧ s < o.n) := by
        unfold sigValid at hsv
        split at hsv
        · cases hsv
        · rename_i h1
          split at hsv
          · cases hsv
          · split at hsv
            · cases hsv
            · rename_i h3
              exact ⟨not_not.mp h1, not_not.mp h3⟩
      unfold verify at hv'
      cases hc : verifyCore o c Q r s false with
      | ok u => rw [hc] at hv'; simp [hrs.1, hrs.2] at hv'
      | error e => rfl

/-! ## T3 (soundness on arbitrary signatures): a recovered key verifies -/

include L in
/-- whatever `_recover_pub_key_` answers — any `key_id`, any `(c, r, s)` with `r, s ∈ 1..n-1`, either cofactor arm —
    is a key under which `(r, s)` verifies for `c` -/
theorem recover_sound {primeOrder lowerS : Bool} {kid c r s : ℤ} {Q : α}
    (hr : 0 < r ∧ r < o.n) (hs : 0 < s ∧ s < o.n)
    (h : recover o primeOrder kid c r s lowerS = .ok Q) : verify o c Q r s = true := by
  have hn := L.n_pos
  obtain ⟨r1, hr1, -, -, hrr1⟩ := modInv_n L (cast_ne_zero L hr.1 hr.2)
  have hcore : verifyCore o c Q r s false = .ok () := by
    unfold recover at h
    by_cases hlow : lowerS = true ∧ s > o.n / 2
    · simp only [hlow, and_self, if_true] at h; cases h
    by_cases hrange : primeOrder = true ∧ ¬(0 ≤ r + kid / 2 * o.n ∧ r + kid / 2 * o.n < o.p)
    · simp only [hlow, if_false, hrange, not_false_eq_true, and_self, if_true] at h; cases h
    · simp only [hlow, if_false, hrange, hr1] at h
      split at h
      · cases h
      · rename_i Ke hlift
        obtain ⟨hKe0, hKex, -⟩ := L.liftX_some _ _ hlift
        have hK' : L.abs (if kid % 2 = 1 then o.neg Ke else Ke) ≠ 0 ∧
            o.x (if kid % 2 = 1 then o.neg Ke else Ke) =
              (if primeOrder = true then r + kid / 2 * o.n else (r + kid / 2 * o.n) % o.p) := by
          split
          · exact ⟨by rw [L.abs_neg]; exact neg_ne_zero.mpr hKe0, by rw [L.x_neg]; exact hKex⟩
          · exact ⟨hKe0, hKex⟩
        generalize (if kid % 2 = 1 then o.neg Ke else Ke) = K' at h hK'
        by_cases hz : o.isZero (o.dmul (r1 * s % o.n) K' (-r1 * c % o.n) o.gen) = true
        · simp only [hz, if_true] at h; cases h
        simp only [hz, if_false] at h
        cases primeOrder with
        | false =>
          simp only [Bool.false_eq_true, if_false] at h
          cases hv : verifyCore o c (o.dmul (r1 * s % o.n) K' (-r1 * c % o.n) o.gen) r s false with
          | error e => rw [hv] at h; cases h
          | ok u =>
            rw [hv] at h
            cases h
            cases u
            exact hv
        | true =>
          simp only [if_true] at h hK'
          cases h
          have hxrange : 0 ≤ r + kid / 2 * o.n ∧ r + kid / 2 * o.n < o.p := by
            by_contra hc
            exact hrange ⟨rfl, hc⟩
          apply verifyCore_ok_of L hs hK'.1 (K0 := K')
          · rw [hK'.2, Int.add_mul_emod_self_right, Int.emod_eq_of_lt (le_of_lt hr.1) hr.2]
          · intro w hw
            left
            rw [abs_verifyPoint' L, L.abs_dmul, smul_add, ← mul_zsmul, ← mul_zsmul, add_assoc, ← add_zsmul]
            have e1 : (r * w * (r1 * s % o.n)) • L.abs K' = (1 : ℤ) • L.abs K' := by
              apply abs_zsmul_congr L
              push_cast
              rw [cast_emod L]
              push_cast
              linear_combination (s : ZMod (ord o)) * w * hrr1 + hw
            have e2 : (r * w * (-r1 * c % o.n) + c * w) • L.abs o.gen = (0 : ℤ) • L.abs o.gen := by
              apply abs_zsmul_congr L
              push_cast
              rw [cast_emod L]
              push_cast
              linear_combination (-(c : ZMod (ord o)) * w) * hrr1
            rw [e1, e2, one_zsmul, zero_zsmul, add_zero]
  unfold verify
  rw [hcore]
  simp [hr, hs]

include L in
/-- T3 for the enumeration: every key `_recover_pub_keys_` lists verifies the signature -/
theorem recoverAll_sound (h : ℕ) {c r s : ℤ} {lowerS : Bool} (hr : 0 < r ∧ r < o.n) (hs : 0 < s ∧ s < o.n)
    (Q : α) (hQ : Q ∈ recoverAll o h c r s lowerS) : verify o c Q r s = true := by
  unfold recoverAll at hQ
  obtain ⟨kid, -, hk⟩ := List.mem_filterMap.mp hQ
  cases hrec : recover o (h == 1) (kid : ℕ) c r s lowerS with
  | error e => rw [hrec] at hk; cases hk
  | ok Q' =>
    rw [hrec] at hk
    cases hk
    exact recover_sound L hr hs hrec

end Btc.Ecdsa
