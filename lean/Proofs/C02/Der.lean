import Model.C02.Der
import Proofs.C05.VarInt
import Proofs.Common.Bytes
import Mathlib.Tactic.Ring
import Mathlib.Tactic.Linarith
/-
T5: strict DER parsing accepts exactly the canonical encoding.
-/
namespace Btc.Der
open Btc Btc.Py

/-! ## `int.bit_length` -/

theorem aux_zero (fuel : Nat) : natBitLengthAux fuel 0 = 0 := by
  cases fuel <;> simp [natBitLengthAux]

theorem aux_spec : ∀ (fuel n : Nat), n ≤ fuel →
    n < 2 ^ natBitLengthAux fuel n ∧ (n ≠ 0 → 2 ^ (natBitLengthAux fuel n - 1) ≤ n)
  | 0, n, h => by
    have : n = 0 := by omega
    subst this
    simp [natBitLengthAux]
  | fuel + 1, n, h => by
    by_cases hn : n = 0
    · subst hn
      simp [natBitLengthAux]
    · simp only [natBitLengthAux, hn, if_false]
      by_cases h2 : n / 2 = 0
      · rw [h2, aux_zero]
        have : n = 1 := by omega
        subst this
        simp
      · have ih := aux_spec fuel (n / 2) (by omega)
        generalize natBitLengthAux fuel (n / 2) = a at ih ⊢
        obtain ⟨ih1, ih2⟩ := ih
        have ha : 0 < a := by
          rcases Nat.eq_zero_or_pos a with ha | ha
          · subst ha; simp at ih1; omega
          · exact ha
        have e : 2 ^ a = 2 * 2 ^ (a - 1) := by
          conv_lhs => rw [show a = (a - 1) + 1 by omega]
          rw [Nat.pow_succ]; ring
        have := ih2 h2
        constructor
        · rw [Nat.add_comm, Nat.pow_succ]; omega
        · intro _
          rw [Nat.add_sub_cancel_left]
          omega

theorem bitLength_spec (n : Nat) :
    n < 2 ^ natBitLength n ∧ (n ≠ 0 → 2 ^ (natBitLength n - 1) ≤ n) :=
  aux_spec n n (Nat.le_refl _)

theorem natBitLength_zero : natBitLength 0 = 0 := by simp [natBitLength, natBitLengthAux]

theorem pow256 (m : Nat) : 256 ^ m = 2 ^ (8 * m) := by
  rw [show (256 : Nat) = 2 ^ 8 by norm_num, ← Nat.pow_mul]

theorem bitLength_le {v e : Nat} (h : v < 2 ^ e) : natBitLength v ≤ e := by
  by_cases hv : v = 0
  · subst hv; rw [natBitLength_zero]; omega
  · have := (bitLength_spec v).2 hv
    have := (Nat.pow_lt_pow_iff_right (by norm_num : 1 < 2)).mp (lt_of_le_of_lt this h)
    omega

theorem bitLength_gt {v e : Nat} (h : 2 ^ e ≤ v) : e < natBitLength v :=
  (Nat.pow_lt_pow_iff_right (by norm_num : 1 < 2)).mp (lt_of_le_of_lt h (bitLength_spec v).1)

/-! ## the value octets of a DER INTEGER -/

/-- what `_serialize_scalar` writes after the length: `bit_length // 8 + 1` big-endian octets -/
def sbytes (v : Nat) : Bytes := beBytes (natBitLength v / 8 + 1) v

theorem ofBE_cons (a : UInt8) (rest : Bytes) :
    ofBE (a :: rest) = a.toNat * 256 ^ rest.length + ofBE rest := by
  simp [ofBE, ofBE_foldl]

/-- numeric reading of the two strict-mode guards -/
theorem strictOk_iff (a : UInt8) (rest : Bytes) :
    strictOk (a :: rest) = true ↔
      ofBE (a :: rest) < 128 * 256 ^ rest.length ∧
      (rest.length ≠ 0 → 128 * 256 ^ (rest.length - 1) ≤ ofBE (a :: rest)) := by
  have ha := a.toNat_lt
  have hr := ofBE_lt rest
  have hpos : 0 < 256 ^ rest.length := Nat.pow_pos (by norm_num)
  rw [ofBE_cons]
  cases rest with
  | nil =>
    simp only [strictOk, List.length_nil, Nat.pow_zero, Nat.mul_one, ofBE, List.foldl_nil, Nat.add_zero]
    constructor
    · intro h
      have : a.toNat < 128 := by simpa [UInt8.lt_iff_toNat_lt] using h
      exact ⟨this, fun h0 => absurd rfl h0⟩
    · rintro ⟨h, -⟩
      simpa [UInt8.lt_iff_toNat_lt] using h
  | cons b rest' =>
    have hb := b.toNat_lt
    have hr' := ofBE_lt rest'
    have hpos' : 0 < 256 ^ rest'.length := Nat.pow_pos (by norm_num)
    have e : 256 ^ (b :: rest').length = 256 * 256 ^ rest'.length := by
      rw [List.length_cons, Nat.pow_succ]; ring
    simp only [strictOk, Bool.and_eq_true, Bool.not_eq_true', Bool.and_eq_false_imp, beq_iff_eq,
      decide_eq_true_eq, decide_eq_false_iff_not, List.length_cons, Nat.add_sub_cancel, ne_eq,
      Nat.add_eq_zero_iff, Nat.succ_ne_zero, and_false, not_false_eq_true, forall_const]
    rw [ofBE_cons b rest']
    rw [List.length_cons] at e hr
    rw [e]
    generalize 256 ^ rest'.length = P at *
    generalize ofBE rest' = t at *
    constructor
    · rintro ⟨h1, h2⟩
      have h2' : a.toNat < 128 := by simpa [UInt8.lt_iff_toNat_lt] using h2
      constructor
      · nlinarith
      · by_cases ha0 : a = 0
        · have := h1 ha0
          have hb' : ¬ b.toNat < 128 := by simpa [UInt8.lt_iff_toNat_lt] using this
          subst ha0
          simp
          nlinarith
        · have : 1 ≤ a.toNat := by
            rcases Nat.eq_zero_or_pos a.toNat with h0 | h0
            · exact absurd (UInt8.toNat_inj.mp (by simpa using h0)) ha0
            · exact h0
          nlinarith
    · rintro ⟨h1, h2⟩
      have ha' : a.toNat < 128 := by
        by_contra hc
        have : 128 ≤ a.toNat := by omega
        nlinarith
      refine ⟨fun ha0 => ?_, by simpa [UInt8.lt_iff_toNat_lt] using ha'⟩
      subst ha0
      simp at h2
      have : ¬ b.toNat < 128 := by
        intro hc
        have : b.toNat ≤ 127 := by omega
        nlinarith
      simpa [UInt8.lt_iff_toNat_lt] using this

theorem pow_8m7 (m : Nat) : 2 ^ (8 * m + 7) = 128 * 256 ^ m := by
  rw [pow256, Nat.pow_add]; ring

theorem pow_8m1 (m : Nat) (hm : m ≠ 0) : 2 ^ (8 * m - 1) = 128 * 256 ^ (m - 1) := by
  rw [show 8 * m - 1 = 8 * (m - 1) + 7 by omega, pow_8m7]

/-- an octet string the strict guards accept is the canonical one of its value -/
theorem sbytes_ofBE (sb : Bytes) (hne : sb ≠ []) (hs : strictOk sb = true) : sbytes (ofBE sb) = sb := by
  obtain ⟨a, rest, rfl⟩ := List.exists_cons_of_ne_nil hne
  obtain ⟨h1, h2⟩ := (strictOk_iff a rest).mp hs
  have hL : natBitLength (ofBE (a :: rest)) / 8 = rest.length := by
    have up : natBitLength (ofBE (a :: rest)) ≤ 8 * rest.length + 7 :=
      bitLength_le (by rw [pow_8m7]; exact h1)
    by_cases hm : rest.length = 0
    · omega
    · have lo : 8 * rest.length - 1 < natBitLength (ofBE (a :: rest)) :=
        bitLength_gt (by rw [pow_8m1 _ hm]; exact h2 hm)
      omega
  unfold sbytes
  rw [hL]
  exact beBytes_ofBE (a :: rest)

/-- the canonical octets of `v`: non-empty, read back as `v`, pass the strict guards -/
theorem sbytes_props (v : Nat) :
    (sbytes v).length = natBitLength v / 8 + 1 ∧ ofBE (sbytes v) = v ∧ strictOk (sbytes v) = true := by
  have hspec := bitLength_spec v
  have hlen : (sbytes v).length = natBitLength v / 8 + 1 := by simp [sbytes]
  have hlt : v < 256 ^ (natBitLength v / 8 + 1) := by
    rw [pow256]
    exact lt_of_lt_of_le hspec.1 (Nat.pow_le_pow_right (by norm_num) (by omega))
  have hval : ofBE (sbytes v) = v := by
    unfold sbytes
    rw [ofBE_beBytes, Nat.mod_eq_of_lt hlt]
  refine ⟨hlen, hval, ?_⟩
  have hne : sbytes v ≠ [] := by
    intro h; rw [h] at hlen; simp at hlen
  obtain ⟨a, rest, hsb⟩ := List.exists_cons_of_ne_nil hne
  have hrl : rest.length = natBitLength v / 8 := by
    rw [hsb] at hlen; simpa using hlen
  rw [hsb]
  apply (strictOk_iff a rest).mpr
  rw [← hsb, hval, hrl]
  constructor
  · rw [← pow_8m7]
    exact lt_of_lt_of_le hspec.1 (Nat.pow_le_pow_right (by norm_num) (by omega))
  · intro hm
    rw [← pow_8m1 _ hm]
    have hv : v ≠ 0 := by
      intro h0; subst h0; rw [natBitLength_zero] at hm; simp at hm
    exact le_trans (Nat.pow_le_pow_right (by norm_num) (by omega)) (hspec.2 hv)

/-! ## the translated writers, in closed form -/

theorem varBytesSerialize_eq (x : Bytes) :
    Gen.Ecdsa.varBytesSerialize x =
      match Gen.VarInt.serialize ((x.length : Nat) : Int) with
      | .ok lb => .ok (lb ++ x)
      | .error e => .error e := by
  unfold Gen.Ecdsa.varBytesSerialize
  simp only [Py.len]
  cases Gen.VarInt.serialize ((x.length : Nat) : Int) <;> rfl

theorem serialize_scalar_nat (v : Nat) :
    Gen.Ecdsa.serialize_scalar (v : Int) =
      match Gen.VarInt.serialize (((sbytes v).length : Nat) : Int) with
      | .ok lb => .ok (2 :: (lb ++ sbytes v))
      | .error e => .error e := by
  have hspec := bitLength_spec v
  have hlt : v < 256 ^ (natBitLength v / 8 + 1) := by
    rw [pow256]
    exact lt_of_lt_of_le hspec.1 (Nat.pow_le_pow_right (by norm_num) (by omega))
  have hsz : ((Py.bitLength (v : Int)) / 8 + 1).toNat = natBitLength v / 8 + 1 := by
    simp only [Py.bitLength, Int.natAbs_natCast]; omega
  have htb : Py.toBytesBE (v : Int) ((Py.bitLength (v : Int)) / 8 + 1) = .ok (sbytes v) := by
    unfold Py.toBytesBE
    have h1 : ¬ ((v : Int) < 0 ∨ (Py.bitLength (v : Int)) / 8 + 1 < 0) := by
      simp only [Py.bitLength, Int.natAbs_natCast]; omega
    rw [if_neg h1, hsz, Int.toNat_natCast, if_neg (by omega)]
    rfl
  unfold Gen.Ecdsa.serialize_scalar
  simp only [htb, bind, Except.bind, varBytesSerialize_eq]
  cases Gen.VarInt.serialize (((sbytes v).length : Nat) : Int) <;> rfl

/-! ## reader lemmas -/

theorem parseValue_append (x lb rest : Bytes) (h : Gen.VarInt.serialize ((x.length : Nat) : Int) = .ok lb)
    (hne : x ≠ []) (hmax : x.length ≤ Gen.VarInt.MAX_SIZE) :
    parseValue (lb ++ (x ++ rest)) = some (x, rest) := by
  have hp := VarInt.parse_serialize _ lb (x ++ rest) Gen.VarInt.MAX_SIZE h
  simp only [Int.toNat_natCast] at hp
  rw [if_neg (by omega)] at hp
  unfold parseValue
  rw [hp]
  have hl : x.length ≠ 0 := by
    intro h0; exact hne (List.eq_nil_of_length_eq_zero h0)
  simp [hl]

theorem parseValue_some (b x rest : Bytes) (h : parseValue b = some (x, rest)) :
    ∃ lb, Gen.VarInt.serialize ((x.length : Nat) : Int) = .ok lb ∧ b = lb ++ (x ++ rest) ∧ x ≠ [] := by
  unfold parseValue at h
  split at h
  · cases h
  · rename_i len rest0 hp
    split at h
    · cases h
    · rename_i hl0
      split at h
      · cases h
      · rename_i hlen
        simp only [Option.some.injEq, Prod.mk.injEq] at h
        obtain ⟨hx, hr⟩ := h
        obtain ⟨lb, hlb, hb⟩ := VarInt.serialize_parse b rest0 len _ hp
        have hxl : x.length = len := by rw [← hx]; simp; omega
        refine ⟨lb, by rw [hxl]; exact hlb, ?_, ?_⟩
        · rw [hb, ← hx, ← hr, List.take_append_drop]
        · intro h0; rw [h0] at hxl; simp at hxl; omega

theorem tag2 : Gen.Ecdsa.derScalarTag = 2 := rfl
theorem tag30 : Gen.Ecdsa.derSigTag = 48 := rfl

theorem deserializeScalar_enc (strict : Bool) (v : Nat) (lb rest : Bytes)
    (h : Gen.VarInt.serialize (((sbytes v).length : Nat) : Int) = .ok lb)
    (hmax : (sbytes v).length ≤ Gen.VarInt.MAX_SIZE) :
    deserializeScalar strict (2 :: (lb ++ (sbytes v ++ rest))) = some (v, rest) := by
  obtain ⟨hlen, hval, hok⟩ := sbytes_props v
  have hne : sbytes v ≠ [] := by intro h0; rw [h0] at hlen; simp at hlen
  unfold deserializeScalar
  simp only [tag2, ne_eq, not_true_eq_false, if_false, parseValue_append _ _ _ h hne hmax, hok, hval]
  simp

theorem deserializeScalar_strict (b rest : Bytes) (v : Nat) (h : deserializeScalar true b = some (v, rest)) :
    ∃ lb, Gen.VarInt.serialize (((sbytes v).length : Nat) : Int) = .ok lb ∧
      b = 2 :: (lb ++ (sbytes v ++ rest)) := by
  unfold deserializeScalar at h
  split at h
  · cases h
  · rename_i m rest0
    split at h
    · cases h
    · rename_i hm
      split at h
      · cases h
      · rename_i sb rest' hpv
        split at h
        · cases h
        · rename_i hst
          simp only [Option.some.injEq, Prod.mk.injEq] at h
          obtain ⟨hv, hr⟩ := h
          obtain ⟨lb, hlb, hb, hne⟩ := parseValue_some _ _ _ hpv
          have hok : strictOk sb = true := by simpa using hst
          have hcan : sbytes v = sb := by rw [← hv]; exact sbytes_ofBE sb hne hok
          have hm2 : m = 2 := by
            have : ¬ (m ≠ Gen.Ecdsa.derScalarTag) := hm
            rw [tag2] at this; exact not_not.mp this
          refine ⟨lb, by rw [hcan]; exact hlb, ?_⟩
          rw [hm2, hb, hcan, hr]

theorem deserializeScalar_lax_of_strict (b : Bytes) (σ : Nat × Bytes)
    (h : deserializeScalar true b = some σ) : deserializeScalar false b = some σ := by
  unfold deserializeScalar at h ⊢
  split at h
  · cases h
  · split at h
    · cases h
    · rename_i hm
      rw [if_neg hm]
      split at h
      · cases h
      · rename_i sb rest' hpv
        split at h
        · cases h
        · simpa using h

/-! ## T5 -/

/-- `Sig.serialize` in closed form on naturals -/
theorem serialize_nat (r s : Nat) (lbr lbs lb : Bytes)
    (hr : Gen.VarInt.serialize (((sbytes r).length : Nat) : Int) = .ok lbr)
    (hs : Gen.VarInt.serialize (((sbytes s).length : Nat) : Int) = .ok lbs)
    (hb : Gen.VarInt.serialize ((((2 :: (lbr ++ sbytes r)) ++ (2 :: (lbs ++ sbytes s))).length : Nat) : Int) = .ok lb) :
    serialize (r : Int) (s : Int) = .ok (48 :: (lb ++ ((2 :: (lbr ++ sbytes r)) ++ (2 :: (lbs ++ sbytes s))))) := by
  unfold serialize
  simp only [serialize_scalar_nat, hr, hs, bind, Except.bind, varBytesSerialize_eq, hb, tag30]
  rfl

/-- T5a: parse ∘ serialize = id (strict and lax), for all naturals whose encoding stays within
    CompactSize's cap on a length (`MAX_SIZE` = 32 MiB; every DER-expressible signature is far below) -/
theorem parse_serialize (strict : Bool) (r s : Nat) (b : Bytes)
    (h : serialize (r : Int) (s : Int) = .ok b) (hmax : b.length ≤ Gen.VarInt.MAX_SIZE) :
    parse strict b = some (r, s) := by
  cases hr : Gen.VarInt.serialize (((sbytes r).length : Nat) : Int) with
  | error e =>
    unfold serialize at h
    simp [serialize_scalar_nat, hr, bind, Except.bind] at h
  | ok lbr =>
    cases hs : Gen.VarInt.serialize (((sbytes s).length : Nat) : Int) with
    | error e =>
      unfold serialize at h
      simp [serialize_scalar_nat, hr, hs, bind, Except.bind] at h
    | ok lbs =>
      cases hb : Gen.VarInt.serialize ((((2 :: (lbr ++ sbytes r)) ++ (2 :: (lbs ++ sbytes s))).length : Nat) : Int) with
      | error e =>
        unfold serialize at h
        simp only [serialize_scalar_nat, hr, hs, bind, Except.bind, varBytesSerialize_eq, hb] at h
        cases h
      | ok lb =>
        rw [serialize_nat r s lbr lbs lb hr hs hb] at h
        cases h
        simp only [List.length_cons, List.length_append] at hmax
        unfold parse
        simp only [tag30, ne_eq, not_true_eq_false, if_false]
        have hpv := parseValue_append ((2 :: (lbr ++ sbytes r)) ++ (2 :: (lbs ++ sbytes s))) lb [] hb
          (by simp) (by simp only [List.length_cons, List.length_append]; omega)
        rw [List.append_nil] at hpv
        rw [hpv]
        have e1 : (2 :: (lbr ++ sbytes r)) ++ (2 :: (lbs ++ sbytes s))
            = 2 :: (lbr ++ (sbytes r ++ (2 :: (lbs ++ sbytes s)))) := by simp
        have d1 := deserializeScalar_enc strict r lbr (2 :: (lbs ++ sbytes s)) hr (by omega)
        have d2 := deserializeScalar_enc strict s lbs [] hs (by omega)
        rw [List.append_nil] at d2
        simp only [e1, d1, d2]
        simp

/-- T5b: whatever strict parsing accepts is the canonical encoding of what it returns: serializing the
    result gives the input back, byte for byte (no trailing bytes, no non-minimal length, no padded or
    negative integer, nothing after the two integers) -/
theorem serialize_parse (b : Bytes) (r s : Nat) (h : parse true b = some (r, s)) :
    serialize (r : Int) (s : Int) = .ok b := by
  unfold parse at h
  split at h
  · cases h
  · rename_i m rest
    split at h
    · cases h
    · rename_i hm
      split at h
      · cases h
      · rename_i data tail hpv
        split at h
        · cases h
        · rename_i r' d1 hd1
          split at h
          · cases h
          · rename_i s' d2 hd2
            split at h
            · cases h
            · rename_i hd2e
              split at h
              · cases h
              · rename_i hte
                simp only [Option.some.injEq, Prod.mk.injEq] at h
                obtain ⟨rfl, rfl⟩ := h
                have hd2nil : d2 = [] := by simpa using hd2e
                have htnil : tail = [] := by simpa using hte
                subst hd2nil htnil
                obtain ⟨lb, hlb, hrest, -⟩ := parseValue_some _ _ _ hpv
                obtain ⟨lbr, hlbr, hdata⟩ := deserializeScalar_strict _ _ _ hd1
                obtain ⟨lbs, hlbs, hd1e⟩ := deserializeScalar_strict _ _ _ hd2
                have hm48 : m = 48 := by
                  have : ¬ (m ≠ Gen.Ecdsa.derSigTag) := hm
                  rw [tag30] at this; exact not_not.mp this
                have hdata' : data = (2 :: (lbr ++ sbytes r')) ++ (2 :: (lbs ++ sbytes s')) := by
                  rw [hdata, hd1e]; simp
                rw [hdata'] at hlb hrest
                rw [serialize_nat r' s' lbr lbs lb hlbr hlbs hlb, hm48, hrest]
                simp

/-- T5c: lax ⊇ strict, with the same reading -/
theorem lax_of_strict (b : Bytes) (σ : Nat × Nat) (h : parse true b = some σ) : parse false b = some σ := by
  unfold parse at h ⊢
  split at h
  · cases h
  · split at h
    · cases h
    · rename_i hm
      rw [if_neg hm]
      split at h
      · cases h
      · rename_i data tail hpv
        split at h
        · cases h
        · rename_i r' d1 hd1
          split at h
          · cases h
          · rename_i s' d2 hd2
            simp only [deserializeScalar_lax_of_strict _ _ hd1, deserializeScalar_lax_of_strict _ _ hd2]
            split at h
            · cases h
            · rename_i hd2e
              rw [if_neg hd2e]
              split at h
              · cases h
              · simpa using h

/-! ## T5d: for 256-bit scalars the encoding is DER proper (BIP66 shape) -/

theorem sbytes_len_le {v : Nat} (h : v < 2 ^ 256) : (sbytes v).length ≤ 33 := by
  have h1 := (sbytes_props v).1
  have h2 := bitLength_le h
  omega

theorem serialize_lt253 (n : Nat) (h : n < 253) : Gen.VarInt.serialize ((n : Nat) : Int) = .ok [UInt8.ofNat n] := by
  rw [VarInt.serialize_nat, if_pos h]

/-- for `r, s < 2^256` what `Sig.serialize` writes is
    `30 L 02 lr <r octets> 02 ls <s octets>` with every length ONE octet below `0x80` (`lr, ls ≤ 33`, `L ≤ 70`):
    the DER short form, at most 72 octets — on this range the CompactSize spelling of a length and DER's coincide -/
theorem serialize_bip66 (r s : Nat) (hr : r < 2 ^ 256) (hs : s < 2 ^ 256) :
    serialize (r : Int) (s : Int) =
      .ok (0x30 :: UInt8.ofNat (4 + (sbytes r).length + (sbytes s).length) :: 0x02 :: UInt8.ofNat (sbytes r).length ::
        (sbytes r ++ 0x02 :: UInt8.ofNat (sbytes s).length :: sbytes s)) ∧
    0 < (sbytes r).length ∧ (sbytes r).length ≤ 33 ∧ 0 < (sbytes s).length ∧ (sbytes s).length ≤ 33 ∧
    4 + (sbytes r).length + (sbytes s).length < 0x80 := by
  have lr := sbytes_len_le hr
  have ls := sbytes_len_le hs
  have pr := (sbytes_props r).1
  have ps := (sbytes_props s).1
  have e : ((2 :: ([UInt8.ofNat (sbytes r).length] ++ sbytes r)) ++
      (2 :: ([UInt8.ofNat (sbytes s).length] ++ sbytes s))).length = 4 + (sbytes r).length + (sbytes s).length := by
    simp only [List.length_cons, List.length_append, List.length_nil]; omega
  have hb := serialize_lt253 (4 + (sbytes r).length + (sbytes s).length) (by omega)
  rw [← e] at hb
  have := serialize_nat r s _ _ _ (serialize_lt253 _ (by omega)) (serialize_lt253 _ (by omega)) hb
  refine ⟨?_, by omega, lr, by omega, ls, by omega⟩
  rw [this, e]
  simp only [List.cons_append, List.nil_append, List.append_assoc]

/-- hence: a string the strict parser reads as a 256-bit signature IS that DER short form -/
theorem parseStrict_bip66 (b : Bytes) (r s : Nat) (h : parse true b = some (r, s)) (hr : r < 2 ^ 256) (hs : s < 2 ^ 256) :
    b = 0x30 :: UInt8.ofNat (4 + (sbytes r).length + (sbytes s).length) :: 0x02 :: UInt8.ofNat (sbytes r).length ::
        (sbytes r ++ 0x02 :: UInt8.ofNat (sbytes s).length :: sbytes s) ∧ b.length ≤ 72 := by
  have h1 := serialize_parse b r s h
  obtain ⟨h2, _, lr, _, ls, _⟩ := serialize_bip66 r s hr hs
  rw [h1] at h2
  have hb := Except.ok.inj h2
  refine ⟨hb, ?_⟩
  rw [hb]
  simp only [List.length_cons, List.length_append]
  omega

end Btc.Der
