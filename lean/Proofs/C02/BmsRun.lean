import Proofs.C02.BmsEc
import Proofs.C02.EndToEnd
/-
AUDIT3 Top 6 residue: T8d about the EXECUTED operations.

`bms_sign_then_verify_ec` (Proofs/C02/BmsEc.lean) lives on C01's lawful carrier `opsSub K`; the driver runs `Bms.sign` /
`Bms.assertAsValid` over the raw integer pairs `Btc.EC.ops C` with the environment `⟨ser, h160⟩`.  Here the runs are
tied:

* `bms_sign_run_eq`: `Bms.sign` over `opsSub K` (environment `bmsEnvSub ser h160`) and over `Btc.EC.ops C`
  (environment `⟨ser, h160⟩`) are EQUAL — signing never calls `lift_x`, and the two environments differ only at
  infinity, which `k·G`, `q·G` with `q ∈ 1..n-1` are not;
* `bms_assertAsValid_run_ok`: what `Bms.assertAsValid` accepts over `opsSub K` it accepts over `Btc.EC.ops C`
  (`lift_x` inside `recover`: whatever the restricted `lift_x` of the carrier answers is what the executed one answers,
  `recover_opsSub`; the recovered key is not infinity);
* `bms_assertAsValid_run_eq`: under `OpsHom (opsSub K) (EC.ops C) Subtype.val` (restricted `lift_x` = executed
  `lift_x`; proved for secp256k1, cofactor one) the two runs of `Bms.assertAsValid` are EQUAL, refusals included.
-/
namespace Btc.E2E
open Btc Btc.EC Btc.C01 Btc.Ecdsa

section
variable {p : ℕ} [Fact p.Prime] {C : Curve}

/-- the environment the driver executes: `ser` on raw pairs -/
def bmsEnvRaw (ser : Point → Bool → Bytes) (h160 : Bytes → Bytes) : Bms.Env Point := ⟨ser, h160⟩

theorem bmsEnvSub_ser_of_ne (ser : Point → Bool → Bytes) (h160 : Bytes → Bytes) (P : SubPt p C) (c : Bool)
    (h : P.1.2 ≠ 0) : (bmsEnvSub ser h160 : Bms.Env (SubPt p C)).ser P c = ser P.1 c := by
  show (if P.1.2 = 0 then [] else ser P.1 c) = ser P.1 c
  rw [if_neg h]

theorem addrOf_sub (ser : Point → Bool → Bytes) (h160 : Bytes → Bytes) (t : Bms.AddrType) (pk : Bytes) :
    Bms.addrOf (bmsEnvSub ser h160 : Bms.Env (SubPt p C)) t pk = Bms.addrOf (bmsEnvRaw ser h160) t pk := by
  cases t <;> rfl

theorem ownType_sub (ser : Point → Bool → Bytes) (h160 : Bytes → Bytes) (pk : Bytes) (comp : Bool)
    (addr : Option Bms.Addr) :
    Bms.ownType (bmsEnvSub ser h160 : Bms.Env (SubPt p C)) pk comp addr = Bms.ownType (bmsEnvRaw ser h160) pk comp addr := by
  cases addr with
  | none => rfl
  | some a => simp only [Bms.ownType, addrOf_sub]

theorem signRecMsg_opsSub (K : CurveOk p C) (H : Rfc6979.HashSpec) (m : Bytes) (q : ℤ) (k? : Option ℤ) (l : Bool)
    (fuel : ℕ) : Rfc6979.signRecMsg (opsSub K) H m q k? l fuel = Rfc6979.signRecMsg (EC.ops C) H m q k? l fuel := rfl

/-- `q·G` with `q ∈ 1..n-1` is not infinity (no `lift_x`, any odd `p`) -/
theorem mul_gen_y_ne_zero (K : CurveOk p C) {q : ℤ} (hq : 0 < q ∧ q < C.n) :
    ((opsSub K).mul q (opsSub K).gen).1.2 ≠ 0 := by
  have h : (lawfulGroup_ec K).abs ((opsSub K).mul q (opsSub K).gen) ≠ 0 := by
    rw [(lawfulGroup_ec K).abs_mul]
    exact Grp.zsmul_ne_zero (lawfulGroup_ec K) (opsSub K).gen (lawfulGroup_ec K).gen_ne_zero
      (Grp.cast_ne_zero (lawfulGroup_ec K) hq.1 hq.2)
  exact (absSub_ne_zero_iff _).mp h

/-- **run equality, `bms.sign`**: over the lawful carrier and over the executed raw arithmetic `bms.sign` answers the
    same thing (value, refusal class or fuel) on every input — any `CurveOk` curve, no cofactor hypothesis -/
theorem bms_sign_run_eq (K : CurveOk p C) (ser : Point → Bool → Bytes) (h160 : Bytes → Bytes)
    (H : Rfc6979.HashSpec) (mm : Bytes) (q : ℤ) (comp : Bool) (addr : Option Bms.Addr) (fuel : ℕ) :
    Bms.sign (opsSub K) (bmsEnvSub ser h160 : Bms.Env (SubPt p C)) H mm q comp addr fuel =
      Bms.sign (EC.ops C) (bmsEnvRaw ser h160) H mm q comp addr fuel := by
  unfold Bms.sign
  rw [signRecMsg_opsSub]
  cases hs : Rfc6979.signRecMsg (EC.ops C) H mm q none true fuel with
  | err e => rfl
  | fuel => rfl
  | ok v =>
    obtain ⟨r, s, kid⟩ := v
    obtain ⟨-, hq, -⟩ := Rfc6979.signRecMsg_ok H mm q none true fuel r s kid hs
    have hpk : (bmsEnvSub ser h160 : Bms.Env (SubPt p C)).ser ((opsSub K).mul q (opsSub K).gen) comp =
        (bmsEnvRaw ser h160).ser ((EC.ops C).mul q (EC.ops C).gen) comp :=
      bmsEnvSub_ser_of_ne ser h160 _ comp (mul_gen_y_ne_zero K hq)
    simp only [hpk, ownType_sub]

theorem sigValid_opsSub (K : CurveOk p C) (isX : ℤ → Bool) (r s : ℤ) :
    sigValid (opsSub K) isX r s = sigValid (EC.ops C) isX r s := by
  unfold sigValid
  rw [congruent_opsSub K isX]
  rfl

/-- a key `recover` answers is not infinity -/
theorem recover_ne_zero {α : Type} {o : GroupOps α} {po : Bool} {kid c r s : ℤ} {l : Bool} {Q : α}
    (h : recover o po kid c r s l = .ok Q) : o.isZero Q = false := by
  unfold recover at h
  by_cases h1 : l = true ∧ s > o.n / 2
  · rw [ite_pos' h1] at h; cases h
  rw [ite_neg' h1] at h
  by_cases h2 : po = true ∧ ¬(0 ≤ r + kid / 2 * o.n ∧ r + kid / 2 * o.n < o.p)
  · rw [ite_pos' h2] at h; cases h
  simp only [] at h
  rw [ite_neg' h2] at h
  cases hr1 : modInv r o.n with
  | none => simp only [hr1] at h; cases h
  | some r1 =>
  simp only [hr1] at h
  generalize (if po = true then r + kid / 2 * o.n else (r + kid / 2 * o.n) % o.p) = xK at h
  cases hKe : o.liftX xK with
  | none => simp only [hKe] at h; cases h
  | some Ke =>
  simp only [hKe] at h
  generalize o.dmul (r1 * s % o.n) (if kid % 2 = 1 then o.neg Ke else Ke) (-r1 * c % o.n) o.gen = Qs at h
  by_cases hz : o.isZero Qs = true
  · rw [ite_pos' hz] at h; cases h
  rw [ite_neg' hz] at h
  by_cases hpo : po = true
  · rw [ite_pos' hpo] at h; cases h; simpa using hz
  rw [ite_neg' hpo] at h
  cases hv : verifyCore o c Qs r s false with
  | error e => simp only [hv] at h; cases h
  | ok u => simp only [hv] at h; cases h; simpa using hz

/-- **run transfer, `bms.assert_as_valid`**: what the carrier run accepts, the executed run accepts — any `CurveOk`
    curve, no cofactor hypothesis (`recover_opsSub`: the restricted `lift_x` answers only what the executed one does) -/
theorem bms_assertAsValid_run_ok (K : CurveOk p C) (ser : Point → Bool → Bytes) (h160 : Bytes → Bytes)
    (isX : ℤ → Bool) (c : ℤ) (addr : Bms.Addr) (rf : ℕ) (r s : ℤ)
    (h : Bms.assertAsValid (opsSub K) (bmsEnvSub ser h160 : Bms.Env (SubPt p C)) isX c addr rf r s = .ok ()) :
    Bms.assertAsValid (EC.ops C) (bmsEnvRaw ser h160) isX c addr rf r s = .ok () := by
  unfold Bms.assertAsValid at h ⊢
  rw [sigValid_opsSub] at h
  split at h
  · cases h
  rename_i hin
  rw [if_neg hin]
  cases hsv : sigValid (EC.ops C) isX r s with
  | error e => rw [hsv] at h; cases h
  | ok u =>
    rw [hsv] at h
    simp only at h ⊢
    cases hrec : recover (opsSub K) true ((Bms.keyIdOf rf : ℕ) : ℤ) c r s false with
    | error e => rw [hrec] at h; cases h
    | ok Q =>
      rw [hrec] at h
      rw [recover_opsSub K _ _ _ _ _ _ Q hrec]
      simp only at h ⊢
      have hz : Q.1.2 ≠ 0 := by
        have := recover_ne_zero hrec
        intro h0
        have h1 : (opsSub K).isZero Q = true := by
          show (Q.1.2 == 0) = true
          rw [h0]; rfl
        rw [h1] at this; cases this
      rw [bmsEnvSub_ser_of_ne ser h160 Q _ hz, addrOf_sub] at h
      exact h

/-- **T8d about the executed operations**: for every `CurveOk` curve with `p ≡ 3 (mod 4)` and `p < 2n`, whatever
    `bms.sign` answers when run over the raw `Btc.EC.ops C` (any pair serialization, `hash160`, HMAC) is accepted by
    `bms.assert_as_valid` run over the raw `Btc.EC.ops C`, for every address of the key whose type the flag may speak for -/
theorem bms_sign_then_verify_ec_raw (K : CurveOk p C) (h34 : p % 4 = 3) (hp2n : C.p < 2 * C.n)
    (ser : Point → Bool → Bytes) (h160 : Bytes → Bytes) (H : Rfc6979.HashSpec) (mm : Bytes) (q : ℤ) (comp : Bool)
    (addr : Option Bms.Addr) (fuel : ℕ) (rf : ℕ) (r s : ℤ)
    (h : Bms.sign (EC.ops C) (bmsEnvRaw ser h160) H mm q comp addr fuel = .ok (rf, r, s)) :
    (∀ t, Bms.accepts t rf = true →
        Bms.assertAsValid (EC.ops C) (bmsEnvRaw ser h160) (isXCoord C) (Rfc6979.challenge C.n mm)
          (Bms.addrOf (bmsEnvRaw ser h160) t (ser ((EC.ops C).mul q C.G) comp)) rf r s = .ok ()) ∧
    (∃ t, Bms.ownType (bmsEnvRaw ser h160) (ser ((EC.ops C).mul q C.G) comp) comp addr = some t ∧
        Bms.accepts t rf = true) ∧
    27 ≤ rf ∧ rf ≤ 42 ∧ s ≤ C.n / 2 ∧ (0 < q ∧ q < C.n) := by
  have hsub := (bms_sign_run_eq K ser h160 H mm q comp addr fuel).trans h
  obtain ⟨hall, ⟨t0, ht0, hacc0⟩, h27, h42, hlow⟩ :=
    bms_sign_then_verify_ec K h34 hp2n ser h160 H mm q comp addr fuel rf r s hsub
  -- the key is in range (so `q·G` is not infinity and both environments serialize it alike)
  have hq : 0 < q ∧ q < C.n := by
    unfold Bms.sign at h
    cases hs : Rfc6979.signRecMsg (EC.ops C) H mm q none true fuel with
    | err e => rw [hs] at h; cases h
    | fuel => rw [hs] at h; cases h
    | ok v =>
      obtain ⟨r', s', kid⟩ := v
      exact (Rfc6979.signRecMsg_ok H mm q none true fuel r' s' kid hs).2.1
  have hpk : (bmsEnvSub ser h160 : Bms.Env (SubPt p C)).ser ((opsSub K).mul q (opsSub K).gen) comp =
      ser ((EC.ops C).mul q C.G) comp :=
    bmsEnvSub_ser_of_ne ser h160 _ comp (mul_gen_y_ne_zero K hq)
  rw [hpk] at hall ht0
  refine ⟨fun t ht => ?_, ⟨t0, ?_, hacc0⟩, h27, h42, hlow, hq⟩
  · have := hall t ht
    rw [addrOf_sub] at this
    exact bms_assertAsValid_run_ok K ser h160 _ _ _ _ _ _ this
  · rw [← ownType_sub (p := p) (C := C)]; exact ht0

/-- under `LiftAgree K` (restricted `lift_x` = executed `lift_x`) `_recover_pub_key_` over the carrier and over the
    raw arithmetic answer the same thing, refusals included -/
theorem recover_opsSub_eq (K : CurveOk p C) (hL : LiftAgree K) (po : Bool) (kid c r s : ℤ) (l : Bool) :
    (recover (opsSub K) po kid c r s l).map Subtype.val = recover (EC.ops C) po kid c r s l := by
  cases hrec : recover (opsSub K) po kid c r s l with
  | ok Q => rw [recover_opsSub K _ _ _ _ _ _ Q hrec]; rfl
  | error e =>
    show Except.error e = _
    symm
    unfold recover at hrec ⊢
    generalize hn : (opsSub K).n = n at hrec
    generalize hq : (opsSub K).p = q at hrec
    rw [show (EC.ops C).n = n from hn, show (EC.ops C).p = q from hq]
    by_cases h1 : l = true ∧ s > n / 2
    · rw [ite_pos' h1] at hrec ⊢; cases hrec; rfl
    rw [ite_neg' h1] at hrec ⊢
    by_cases h2 : po = true ∧ ¬(0 ≤ r + kid / 2 * n ∧ r + kid / 2 * n < q)
    · rw [ite_pos' h2] at hrec ⊢; cases hrec; rfl
    simp only [] at hrec ⊢
    rw [ite_neg' h2] at hrec ⊢
    cases hr1 : modInv r n with
    | none => simp only [hr1] at hrec ⊢; cases hrec; rfl
    | some r1 =>
    simp only [hr1] at hrec ⊢
    generalize (if po = true then r + kid / 2 * n else (r + kid / 2 * n) % q) = xK at hrec ⊢
    cases hKe : (opsSub K).liftX xK with
    | none =>
      have hraw : (EC.ops C).liftX xK = none := by rw [← hL xK, hKe]; rfl
      simp only [hKe] at hrec
      simp only [hraw]
      cases hrec; rfl
    | some Ke =>
    simp only [hKe, opsSub_liftX K hKe] at hrec ⊢
    have hQ1 : ((opsSub K).dmul (r1 * s % n) (if kid % 2 = 1 then (opsSub K).neg Ke else Ke) (-r1 * c % n)
        (opsSub K).gen).1 = (EC.ops C).dmul (r1 * s % n) (if kid % 2 = 1 then (EC.ops C).neg Ke.1 else Ke.1)
        (-r1 * c % n) (EC.ops C).gen := by split <;> rfl
    rw [← hQ1]
    generalize (opsSub K).dmul (r1 * s % n) (if kid % 2 = 1 then (opsSub K).neg Ke else Ke) (-r1 * c % n)
        (opsSub K).gen = Qs at hrec ⊢
    rw [show (opsSub K).isZero Qs = (EC.ops C).isZero Qs.1 from rfl, verifyCore_opsSub] at hrec
    by_cases hz : (EC.ops C).isZero Qs.1 = true
    · rw [ite_pos' hz] at hrec ⊢; cases hrec; rfl
    rw [ite_neg' hz] at hrec ⊢
    by_cases hpo : po = true
    · rw [ite_pos' hpo] at hrec; cases hrec
    rw [ite_neg' hpo] at hrec ⊢
    cases hv : verifyCore (EC.ops C) c Qs.1 r s false with
    | error e' => simp only [hv] at hrec ⊢; cases hrec; rfl
    | ok u => simp only [hv] at hrec; cases hrec

/-- **run equality, `bms.assert_as_valid`** (under `LiftAgree K`: cofactor one; proved for secp256k1): over the lawful
    carrier and over the executed raw arithmetic it answers the same thing on EVERY input, each refusal class included -/
theorem bms_assertAsValid_run_eq (K : CurveOk p C) (hL : LiftAgree K) (ser : Point → Bool → Bytes)
    (h160 : Bytes → Bytes) (isX : ℤ → Bool) (c : ℤ) (addr : Bms.Addr) (rf : ℕ) (r s : ℤ) :
    Bms.assertAsValid (opsSub K) (bmsEnvSub ser h160 : Bms.Env (SubPt p C)) isX c addr rf r s =
      Bms.assertAsValid (EC.ops C) (bmsEnvRaw ser h160) isX c addr rf r s := by
  unfold Bms.assertAsValid
  rw [sigValid_opsSub]
  by_cases hin : Bms.inRange rf = false
  · rw [if_pos hin, if_pos hin]
  rw [if_neg hin, if_neg hin]
  cases hsv : sigValid (EC.ops C) isX r s with
  | error e => rfl
  | ok u =>
    simp only
    have hre := recover_opsSub_eq K hL true ((Bms.keyIdOf rf : ℕ) : ℤ) c r s false
    cases hrec : recover (opsSub K) true ((Bms.keyIdOf rf : ℕ) : ℤ) c r s false with
    | error e =>
      rw [hrec] at hre
      rw [← hre]
      rfl
    | ok Q =>
      rw [hrec] at hre
      rw [← hre]
      have hz : Q.1.2 ≠ 0 := by
        have := recover_ne_zero hrec
        intro h0
        have h1 : (opsSub K).isZero Q = true := by
          show (Q.1.2 == 0) = true
          rw [h0]; rfl
        rw [h1] at this; cases this
      show (if Bms.accepts addr.1 rf = false then Except.error Err.value
        else if Bms.addrOf (bmsEnvSub ser h160 : Bms.Env (SubPt p C)) addr.1
            ((bmsEnvSub ser h160 : Bms.Env (SubPt p C)).ser Q (Bms.compressedOf rf)) ≠ addr then .error .value
        else .ok ()) = _
      rw [bmsEnvSub_ser_of_ne ser h160 Q _ hz, addrOf_sub]
      rfl

end

/-! ## secp256k1: nothing assumed -/

/-- secp256k1's discriminant `−16·27·7²` is not zero in its field -/
theorem secp_delta_ne_zero_c02 : (curveOf secp256k1_p secp256k1.toCurveGroup).toAffine.Δ ≠ 0 := by
  have ha : secp256k1.toCurveGroup.a = 0 := by decide +kernel
  have hb : secp256k1.toCurveGroup.b = 7 := by decide +kernel
  unfold curveOf swc
  simp only [WeierstrassCurve.Δ, WeierstrassCurve.b₂, WeierstrassCurve.b₄, WeierstrassCurve.b₆, WeierstrassCurve.b₈, ha, hb]
  norm_num
  intro h
  have h' : ((21168 : ℕ) : ZMod secp256k1_p) = 0 := by exact_mod_cast h
  rw [ZMod.natCast_eq_zero_iff] at h'
  have := Nat.le_of_dvd (by norm_num) h'
  have hp : 21168 < secp256k1_p := by decide +kernel
  omega

/-- on secp256k1 the restricted `lift_x` of the lawful carrier IS the executed `lift_x` (cofactor one proved) -/
theorem secp_liftAgree_c02 : LiftAgree secpOk :=
  @liftAgree_of_cofactor_one secp256k1_p ⟨secp256k1_p_prime⟩ secp256k1 secpOk secp256k1_h34 secpCofactorOne
    secp_delta_ne_zero_c02

/-- `bms.sign` on secp256k1: carrier run = executed run -/
theorem bms_sign_run_eq_secp256k1 (ser : Point → Bool → Bytes) (h160 : Bytes → Bytes)
    (H : Rfc6979.HashSpec) (mm : Bytes) (q : ℤ) (comp : Bool) (addr : Option Bms.Addr) (fuel : ℕ) :
    Bms.sign secpOps (bmsEnvSub ser h160 : Bms.Env SecpPt) H mm q comp addr fuel =
      Bms.sign (EC.ops secp256k1) (bmsEnvRaw ser h160) H mm q comp addr fuel :=
  @bms_sign_run_eq secp256k1_p ⟨secp256k1_p_prime⟩ secp256k1 secpOk ser h160 H mm q comp addr fuel

/-- `bms.assert_as_valid` on secp256k1: carrier run = executed run, on every input -/
theorem bms_assertAsValid_run_eq_secp256k1 (ser : Point → Bool → Bytes) (h160 : Bytes → Bytes) (isX : ℤ → Bool)
    (c : ℤ) (addr : Bms.Addr) (rf : ℕ) (r s : ℤ) :
    Bms.assertAsValid secpOps (bmsEnvSub ser h160 : Bms.Env SecpPt) isX c addr rf r s =
      Bms.assertAsValid (EC.ops secp256k1) (bmsEnvRaw ser h160) isX c addr rf r s :=
  @bms_assertAsValid_run_eq secp256k1_p ⟨secp256k1_p_prime⟩ secp256k1 secpOk secp_liftAgree_c02 ser h160 isX c addr
    rf r s

/-- **T8d on secp256k1 about the executed operations, nothing assumed** -/
theorem bms_sign_then_verify_secp256k1
    (ser : Point → Bool → Bytes) (h160 : Bytes → Bytes) (H : Rfc6979.HashSpec) (mm : Bytes) (q : ℤ) (comp : Bool)
    (addr : Option Bms.Addr) (fuel : ℕ) (rf : ℕ) (r s : ℤ)
    (h : Bms.sign (EC.ops secp256k1) (bmsEnvRaw ser h160) H mm q comp addr fuel = .ok (rf, r, s)) :
    (∀ t, Bms.accepts t rf = true →
        Bms.assertAsValid (EC.ops secp256k1) (bmsEnvRaw ser h160) (isXCoord secp256k1)
          (Rfc6979.challenge secp256k1.n mm)
          (Bms.addrOf (bmsEnvRaw ser h160) t (ser ((EC.ops secp256k1).mul q secp256k1.G) comp)) rf r s = .ok ()) ∧
    (∃ t, Bms.ownType (bmsEnvRaw ser h160) (ser ((EC.ops secp256k1).mul q secp256k1.G) comp) comp addr = some t ∧
        Bms.accepts t rf = true) ∧
    27 ≤ rf ∧ rf ≤ 42 ∧ s ≤ secp256k1.n / 2 ∧ (0 < q ∧ q < secp256k1.n) :=
  @bms_sign_then_verify_ec_raw secp256k1_p ⟨secp256k1_p_prime⟩ secp256k1 secpOk secp256k1_h34 (by decide +kernel)
    ser h160 H mm q comp addr fuel rf r s h

/-- the toy curve `y² = x³ + 7` over `F₄₃`: an actual run of `bms.sign` over the RAW arithmetic -/
theorem toy_bms_sign_raw :
    Bms.sign (EC.ops toyC) (bmsEnvRaw (Bms.secSer 1) id) ⟨fun _ _ => [0x10], 1⟩ [0x1f] 5 true none 4 =
      .ok (31, 7, 12) := by decide +kernel

end Btc.E2E
