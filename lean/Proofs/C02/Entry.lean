import Proofs.C02.Der
import Proofs.C02.EndToEnd
import Model.C02.Api
/-
The verify entry point on raw inputs, and DER acceptance as an iff with an explicit BIP66 predicate.
-/
namespace Btc.Der
open Btc

/-- **`der_parse_accepts_iff`**: for 256-bit `r`, `s` the strict parser answers `(r, s)` on `b` exactly when `b` is the
    BIP66 / DER short form of `(r, s)` -/
theorem parseStrict_iff_bip66 (b : Bytes) (r s : ℕ) (hr : r < 2 ^ 256) (hs : s < 2 ^ 256) :
    parse true b = some (r, s) ↔ Bip66 b r s := by
  constructor
  · intro h
    obtain ⟨hb, -⟩ := parseStrict_bip66 b r s h hr hs
    obtain ⟨lr, vr, sr⟩ := sbytes_props r
    obtain ⟨ls, vs, ss⟩ := sbytes_props s
    refine ⟨sbytes r, sbytes s, ?_, ?_, sr, ss, vr, vs, hb⟩
    · intro h0; rw [h0] at lr; simp at lr
    · intro h0; rw [h0] at ls; simp at ls
  · rintro ⟨R, S, hR, hS, sR, sS, vR, vS, hb⟩
    have eR := sbytes_ofBE R hR sR
    have eS := sbytes_ofBE S hS sS
    rw [vR] at eR
    rw [vS] at eS
    obtain ⟨hser, h1, h2, h3, h4, h5⟩ := serialize_bip66 r s hr hs
    simp only [eR, eS] at hser h1 h2 h3 h4 h5
    rw [← hb] at hser
    apply parse_serialize true r s b hser
    rw [hb]
    simp only [List.length_cons, List.length_append]
    unfold Gen.VarInt.MAX_SIZE
    omega

/-- BIP66 strings are at most 72 octets when the integers are 256-bit -/
theorem bip66_injective (b₁ b₂ : Bytes) (r s : ℕ) (hr : r < 2 ^ 256) (hs : s < 2 ^ 256)
    (h₁ : Bip66 b₁ r s) (h₂ : Bip66 b₂ r s) : b₁ = b₂ := by
  have e₁ := serialize_parse b₁ r s ((parseStrict_iff_bip66 b₁ r s hr hs).mpr h₁)
  have e₂ := serialize_parse b₂ r s ((parseStrict_iff_bip66 b₂ r s hr hs).mpr h₂)
  rw [e₁] at e₂
  exact Except.ok.inj e₂

end Btc.Der

namespace Btc.E2E
open Btc Btc.EC Btc.Ecdsa

/-- **the verify entry point is total and exact** (secp256k1, nothing assumed): on ANY octets `m`, `sig` and ANY
    integer pair `Q`, `dsa.verify_` is a boolean (the function has no other outcome) and it is `True` exactly when
    `sig` is the canonical DER of some `(r, s)`, the digest has the hash's size, `Q` is a public key, and the SEC 1
    predicate `verify` holds — in every other case `False`. -/
theorem verifyDer_iff (hlen : ℕ) (m : Bytes) (Q : Point) (sig : Bytes) :
    verifyDer hlen m Q sig = true ↔
      ∃ r s : ℕ, Der.parseStrict sig = some (r, s) ∧ m.length = hlen ∧ pubKeyOk secp256k1 Q = true ∧
        Ecdsa.verify (EC.ops secp256k1) (Rfc6979.challenge secp256k1.n m) Q r s = true := by
  unfold verifyDer
  cases hp : Der.parse true sig with
  | none => simp [Der.parseStrict, hp]
  | some v =>
    obtain ⟨r, s⟩ := v
    simp only [Der.parseStrict, hp]
    unfold verifyApi
    by_cases hc : m.length ≠ hlen ∨ pubKeyOk secp256k1 Q = false
    · rw [if_pos hc]
      constructor
      · intro h; cases h
      · rintro ⟨r', s', -, hm, hk, -⟩
        rcases hc with hc | hc
        · exact absurd hm hc
        · rw [hk] at hc; cases hc
    · rw [if_neg hc]
      have hm : m.length = hlen := by
        by_contra h; exact hc (Or.inl h)
      have hk : pubKeyOk secp256k1 Q = true := by
        cases hh : pubKeyOk secp256k1 Q with
        | false => exact absurd (Or.inr hh) hc
        | true => rfl
      rw [(ecdsa_verify_api_is_sec1_secp256k1_any_key _ Q hk r s).1]
      constructor
      · intro h; exact ⟨r, s, rfl, hm, hk, h⟩
      · rintro ⟨r', s', he, -, -, h⟩
        cases he
        exact h

/-- the same for a `Sig` object on any curve: what can make the answer `True` -/
theorem verifyApi_iff (C : Curve) (hlen : ℕ) (m : Bytes) (Q : Point) (r s : ℤ) :
    verifyApi C hlen m Q r s = true ↔
      m.length = hlen ∧ pubKeyOk C Q = true ∧
        verifyFull (EC.ops C) (isXCoord C) (Rfc6979.challenge C.n m) Q r s = true := by
  unfold verifyApi
  by_cases hc : m.length ≠ hlen ∨ pubKeyOk C Q = false
  · rw [if_pos hc]
    constructor
    · intro h; cases h
    · rintro ⟨hm, hk, -⟩
      rcases hc with hc | hc
      · exact absurd hm hc
      · rw [hk] at hc; cases hc
  · rw [if_neg hc]
    have hm : m.length = hlen := by
      by_contra h; exact hc (Or.inl h)
    have hk : pubKeyOk C Q = true := by
      cases hh : pubKeyOk C Q with
      | false => exact absurd (Or.inr hh) hc
      | true => rfl
    exact ⟨fun h => ⟨hm, hk, h⟩, fun h => h.2.2⟩

end Btc.E2E
