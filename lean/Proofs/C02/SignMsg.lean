import Proofs.C02.Ecdsa
import Proofs.C02.Misc
/-
The entry points above the core (`dsa.sign_`, `dsa.sign_recoverable_`, Python arm) composed with T1/T3/T4:
whatever they answer — explicit nonce, RFC 6979 nonce, low-R grinding — verifies under `q·G` for the challenge of
the digest, is low-s / low-r as asked, and (recoverable form) recovers `q·G`.
-/
namespace Btc.Rfc6979
open Btc Btc.Ecdsa

variable {α G : Type} [AddCommGroup G] {o : GroupOps α} (L : Lawful o G)

theorem sign_ok {c q k : ℤ} {lowerS : Bool} {σ : ℤ × ℤ} (h : Ecdsa.sign o c q k lowerS = .ok σ) :
    ∃ kid, signRecoverable o c q k lowerS = .ok (σ.1, σ.2, kid) := by
  unfold Ecdsa.sign at h
  cases hs : signRecoverable o c q k lowerS with
  | error e => rw [hs] at h; cases h
  | ok t =>
    rw [hs] at h
    obtain ⟨r, s, kid⟩ := t
    cases h
    exact ⟨kid, rfl⟩

theorem scalarOk_iff (n x : ℤ) : scalarOk n x = true ↔ 0 < x ∧ x < n := by simp [scalarOk]

/-- `sign_` (any hash, explicit or RFC 6979 nonce, with or without grinding): the signature it answers verifies under
    (any representation of) `q·G` for the challenge of the digest; it is low-s when asked; and with `grind` on the
    deterministic arm its `r` is low (`_is_low_r`, translated) -/
theorem signMsg_verifies (H : HashSpec) (m : Bytes) (q : ℤ) (k? : Option ℤ) (lowerS grind : Bool) (fuel : ℕ)
    (σ : ℤ × ℤ) (h : signMsg o H m q k? lowerS grind fuel = .ok σ) (Q : α) (hQ : L.abs Q = q • L.abs o.gen) :
    verify o (challenge o.n m) Q σ.1 σ.2 = true ∧ (lowerS = true → σ.2 ≤ o.n / 2) ∧
      (k? = none → grind = true → Gen.Ecdsa.is_low_r σ.1 (nsizeOf o.n) = true) := by
  unfold signMsg at h
  split at h
  · cases h
  split at h
  · cases h
  split at h
  · cases h
  simp only at h
  cases k? with
  | some k =>
    simp only at h
    split at h
    · cases h
    · rename_i hk
      have hk' := (scalarOk_iff _ _).mp (by simpa using hk)
      cases hs : Ecdsa.sign o (challenge o.n m) q k lowerS with
      | error e => rw [hs] at h; cases h
      | ok σ' =>
        rw [hs] at h
        cases h
        obtain ⟨kid, hkid⟩ := sign_ok hs
        have := sign_verifies L hk' Q hQ hkid
        exact ⟨this.1, this.2, fun h0 => by cases h0⟩
  | none =>
    simp only at h
    split at h
    · cases h
    · rename_i cnt σ' hg
      cases h
      -- the attempt that was kept
      have hatt : ∃ cnt', attempt o H (challenge o.n m) q lowerS fuel cnt' = some (.ok σ) ∧
          (grind = true → Gen.Ecdsa.is_low_r σ.1 (nsizeOf o.n) = true) := by
        unfold grindLowR at hg
        beta_reduce at hg
        split at hg
        · rename_i hgr
          obtain ⟨h1, h2, -, -⟩ := grindFrom_first _ _ fuel 0 cnt _ hg
          exact ⟨cnt, h1, fun _ => h2⟩
        · rename_i hgr
          cases ha : attempt o H (challenge o.n m) q lowerS fuel 0 with
          | none => rw [ha] at hg; cases hg
          | some v =>
            rw [ha] at hg
            simp only [Option.map_some, Option.some.injEq, Prod.mk.injEq] at hg
            exact ⟨0, by rw [ha, hg.2], fun hh => absurd hh hgr⟩
      obtain ⟨cnt', ha, hlow⟩ := hatt
      unfold attempt at ha
      cases hn : nonce H o.n (challenge o.n m) q (grindEntropy cnt') fuel with
      | none => rw [hn] at ha; cases ha
      | some k =>
        rw [hn] at ha
        simp only [Option.map_some, Option.some.injEq] at ha
        have hk' := nonce_range H _ _ _ _ _ _ hn
        obtain ⟨kid, hkid⟩ := sign_ok ha
        have := sign_verifies L hk' Q hQ hkid
        exact ⟨this.1, this.2, fun _ hgr => hlow hgr⟩
    · cases h

/-- `sign_recoverable_` (explicit or RFC 6979 nonce): the `(r, s)` verifies under `q·G`, and the `key_id` answered
    beside it recovers `q·G` (both cofactor arms) -/
theorem signRecMsg_recovers (H : HashSpec) (m : Bytes) (q : ℤ) (k? : Option ℤ) (lowerS : Bool) (fuel : ℕ)
    (r s kid : ℤ) (h : signRecMsg o H m q k? lowerS fuel = .ok (r, s, kid)) (Q : α)
    (hQ : L.abs Q = q • L.abs o.gen) (primeOrder : Bool) :
    verify o (challenge o.n m) Q r s = true ∧ (lowerS = true → s ≤ o.n / 2) ∧
      ∃ Q', recover o primeOrder kid (challenge o.n m) r s false = .ok Q' ∧ L.abs Q' = q • L.abs o.gen := by
  unfold signRecMsg at h
  split at h
  · cases h
  split at h
  · cases h
  · rename_i _ hq
    have hq' := (scalarOk_iff _ _).mp (by simpa using hq)
    simp only at h
    have fin : ∀ k : ℤ, 0 < k ∧ k < o.n →
        (match signRecoverable o (challenge o.n m) q k lowerS with
          | .ok σ => Out.ok σ | .error e => .err e) = .ok (r, s, kid) →
        verify o (challenge o.n m) Q r s = true ∧ (lowerS = true → s ≤ o.n / 2) ∧
          ∃ Q', recover o primeOrder kid (challenge o.n m) r s false = .ok Q' ∧ L.abs Q' = q • L.abs o.gen := by
      intro k hk hh
      cases hs : signRecoverable o (challenge o.n m) q k lowerS with
      | error e => rw [hs] at hh; cases hh
      | ok t =>
        rw [hs] at hh
        cases hh
        have h1 := sign_verifies L hk Q hQ hs
        exact ⟨h1.1, h1.2, recover_signer L (yParity L) hk hq' hs primeOrder false (fun h0 => by cases h0)⟩
    cases k? with
    | some k =>
      simp only at h
      split at h
      · cases h
      · rename_i hk
        exact fin k ((scalarOk_iff _ _).mp (by simpa using hk)) h
    | none =>
      simp only at h
      cases hn : nonce H o.n (challenge o.n m) q [] fuel with
      | none => rw [hn] at h; cases h
      | some k =>
        rw [hn] at h
        exact fin k (nonce_range H _ _ _ _ _ _ hn) h

end Btc.Rfc6979
