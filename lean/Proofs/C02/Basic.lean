import Proofs.Common.Lawful
import Model.C02.Ecdsa
import Mathlib.Tactic.Ring
import Mathlib.Tactic.LinearCombination
import Mathlib.Algebra.Field.ZMod
/-
Scalar arithmetic modulo the (prime) group order, as ECDSA uses it:
* `mod_inv` / `mod_inv_var` (`Btc.EC.modInv`) returns the inverse in `ZMod n` of every non-zero residue
  (proved from the extended-Euclid invariant; same argument as Proofs/C01/JacRefine.lean `modInv_prime`,
  restated here so that C02 does not import the elliptic-curve development),
* integer scalars act on a lawful group through their residue in `ZMod n`.
-/
namespace Btc.Ecdsa
open Btc Btc.EC

/-! ## `mod_inv_var` -/

theorem xgcdAux_cast {n : ℕ} (a : ZMod n) : ∀ (fuel : ℕ) (r0 r1 x0 x1 : ℤ),
    (r0 : ZMod n) = a * x0 → (r1 : ZMod n) = a * x1 →
    ((xgcdAux fuel r0 r1 x0 x1).1 : ZMod n) = a * ((xgcdAux fuel r0 r1 x0 x1).2 : ZMod n)
  | 0, r0, r1, x0, x1, h0, _ => by simpa [xgcdAux] using h0
  | fuel + 1, r0, r1, x0, x1, h0, h1 => by
    rw [xgcdAux]
    by_cases hr : r1 = 0
    · simpa [hr] using h0
    · simp only [hr, if_false]
      apply xgcdAux_cast a fuel _ _ _ _ h1
      push_cast
      rw [h0, h1]; ring

theorem xgcdAux_gcd : ∀ (fuel : ℕ) (r0 r1 x0 x1 : ℤ), 0 ≤ r0 → 0 ≤ r1 → r1 < fuel →
    (xgcdAux fuel r0 r1 x0 x1).1 = (Int.gcd r0 r1 : ℤ)
  | 0, r0, r1, x0, x1, _, h1, hf => by omega
  | fuel + 1, r0, r1, x0, x1, h0, h1, hf => by
    rw [xgcdAux]
    by_cases hr : r1 = 0
    · simp only [hr, if_true, Int.gcd_zero_right]
      omega
    · simp only [hr, if_false]
      have hpos : 0 < r1 := by omega
      have hmod : r0 - r0 / r1 * r1 = r0 % r1 := by rw [Int.emod_def]; ring
      have hb0 : 0 ≤ r0 % r1 := Int.emod_nonneg _ hr
      have hb1 : r0 % r1 < r1 := Int.emod_lt_of_pos _ hpos
      rw [xgcdAux_gcd fuel r1 (r0 - r0 / r1 * r1) _ _ h1 (by rw [hmod]; exact hb0)
        (by rw [hmod]; omega), Int.gcd_sub_mul_right_right, Int.gcd_comm]

theorem modInv_spec {n : ℕ} (hn : 1 ≤ n) (a : ℤ) (hg : Int.gcd a n = 1) :
    ∃ x, modInv a n = some x ∧ 0 ≤ x ∧ x < n ∧ ((a : ZMod n) * (x : ZMod n) = 1) := by
  have hn' : ¬ ((n : ℤ) < 1) := by omega
  have hnz : (n : ℤ) ≠ 0 := by omega
  have hg1 : (xgcdAux ((n : ℤ).toNat + 2) (a % n) n 1 0).1 = 1 := by
    rw [xgcdAux_gcd _ _ _ _ _ (Int.emod_nonneg _ hnz) (by omega) (by simp), Int.gcd_emod, hg]
    rfl
  have hc := xgcdAux_cast (n := n) (a : ZMod n) ((n : ℤ).toNat + 2) (a % n) n 1 0
    (by rw [ZMod.intCast_mod]; simp) (by simp)
  rw [hg1] at hc
  refine ⟨(xgcdAux ((n : ℤ).toNat + 2) (a % n) n 1 0).2 % n, ?_, Int.emod_nonneg _ hnz,
    Int.emod_lt_of_pos _ (by omega), ?_⟩
  · simp only [modInv, hn', if_false]
    rw [if_pos hg1]
  · rw [ZMod.intCast_mod, ← hc]; simp

/-- in a prime field every nonzero residue is inverted -/
theorem modInv_prime {p : ℕ} [hpf : Fact p.Prime] (a : ℤ) (ha : (a : ZMod p) ≠ 0) :
    ∃ x, modInv a p = some x ∧ 0 ≤ x ∧ x < p ∧ ((a : ZMod p) * (x : ZMod p) = 1) := by
  apply modInv_spec hpf.out.one_le
  rw [Int.gcd_comm, Int.gcd_eq_natAbs, Int.natAbs_natCast]
  apply (Nat.Prime.coprime_iff_not_dvd hpf.out).mpr
  intro hd
  exact ha ((ZMod.intCast_zmod_eq_zero_iff_dvd a p).mpr (Int.natCast_dvd.mpr hd))

/-! ## scalars of a lawful group live in `ZMod n` -/
section
variable {α G : Type} [AddCommGroup G] {o : GroupOps α} (L : Lawful o G)

/-- the order as a natural number -/
abbrev ord (o : GroupOps α) : ℕ := o.n.toNat

include L in
theorem ord_cast : ((ord o : ℕ) : ℤ) = o.n := Int.toNat_of_nonneg (le_of_lt L.n_pos)

include L in
theorem fact_prime : Fact (Nat.Prime (ord o)) := ⟨L.n_prime⟩

include L in
theorem cast_emod (a : ℤ) : ((a % o.n : ℤ) : ZMod (ord o)) = (a : ZMod (ord o)) := by
  conv_lhs => rw [← ord_cast L]
  exact ZMod.intCast_mod a (ord o)

include L in
theorem cast_n : ((o.n : ℤ) : ZMod (ord o)) = 0 := by
  have h : (((ord o : ℕ) : ℤ) : ZMod (ord o)) = 0 := by
    rw [Int.cast_natCast]; exact ZMod.natCast_self _
  rwa [ord_cast L] at h

include L in
theorem cast_ne_zero {a : ℤ} (h0 : 0 < a) (h1 : a < o.n) : (a : ZMod (ord o)) ≠ 0 := by
  intro h
  have hd := (ZMod.intCast_zmod_eq_zero_iff_dvd a (ord o)).mp h
  rw [ord_cast L] at hd
  have := Int.le_of_dvd h0 hd
  omega

include L in
theorem cast_ne_zero_of_emod {a : ℤ} (h : a % o.n ≠ 0) : (a : ZMod (ord o)) ≠ 0 := by
  intro h'
  have hd := (ZMod.intCast_zmod_eq_zero_iff_dvd a (ord o)).mp h'
  rw [ord_cast L] at hd
  exact h (Int.emod_eq_zero_of_dvd hd)

/-- integer scalars act through their residue -/
theorem zsmul_congr {a b : ℤ} (P : G) (hP : o.n • P = 0) (h : (a : ZMod (ord o)) = (b : ZMod (ord o)))
    (hn : 0 < o.n) : a • P = b • P := by
  have hm : a % o.n = b % o.n := by
    have := (ZMod.intCast_eq_intCast_iff a b (ord o)).mp h
    rw [Int.toNat_of_nonneg (le_of_lt hn)] at this
    exact this
  have key : ∀ m : ℤ, (m % o.n) • P = m • P := by
    intro m
    have h := Int.emod_add_mul_ediv m o.n
    conv_rhs => rw [← h]
    rw [add_zsmul, mul_comm, mul_zsmul, hP, zsmul_zero, add_zero]
  rw [← key a, ← key b, hm]

theorem abs_zsmul_congr {a b : ℤ} (P : α) (h : (a : ZMod (ord o)) = (b : ZMod (ord o))) :
    a • L.abs P = b • L.abs P :=
  zsmul_congr (L.abs P) (L.order P) h L.n_pos

/-- a non-zero element is not killed by a scalar that is invertible modulo n -/
theorem zsmul_ne_zero {a : ℤ} (P : α) (hP : L.abs P ≠ 0) (ha : (a : ZMod (ord o)) ≠ 0) :
    a • L.abs P ≠ 0 := by
  have := fact_prime L
  intro h
  obtain ⟨x, -, -, -, hx⟩ := modInv_prime (p := ord o) a ha
  have : (x * a) • L.abs P = (1 : ℤ) • L.abs P :=
    abs_zsmul_congr L P (by push_cast; rw [mul_comm]; exact hx)
  rw [mul_zsmul, h, zsmul_zero, one_zsmul] at this
  exact hP this.symm

include L in
/-- two residues in `0..n-1` with the same class are the same integer -/
theorem eq_of_cast_eq {a b : ℤ} (ha : 0 ≤ a ∧ a < o.n) (hb : 0 ≤ b ∧ b < o.n)
    (h : (a : ZMod (ord o)) = (b : ZMod (ord o))) : a = b := by
  have := (ZMod.intCast_eq_intCast_iff a b (ord o)).mp h
  rw [ord_cast L] at this
  have h1 := Int.emod_eq_of_lt ha.1 ha.2
  have h2 := Int.emod_eq_of_lt hb.1 hb.2
  unfold Int.ModEq at this
  omega

include L in
/-- `modInv` on the group order: every residue that is non-zero gets its `ZMod n` inverse -/
theorem modInv_n {a : ℤ} (ha : (a : ZMod (ord o)) ≠ 0) :
    ∃ x, modInv a o.n = some x ∧ 0 ≤ x ∧ x < o.n ∧ ((a : ZMod (ord o)) * (x : ZMod (ord o)) = 1) := by
  have := fact_prime L
  have := modInv_prime (p := ord o) a ha
  rw [ord_cast L] at this
  exact this

end
end Btc.Ecdsa
