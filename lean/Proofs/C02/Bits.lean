import Model.C02.Rfc6979
import Proofs.Common.Bytes
import Mathlib.Tactic.Ring
import Mathlib.Tactic.Linarith
/-
T7: bits2int (`utils.int_from_bits`, TRANSLATED: `Gen.Ecdsa.int_from_bits`) is "the leftmost nlen bits".
-/
namespace Btc.Rfc6979
open Btc Btc.Py

/-- `int_from_bits(octets, nlen)` = the big-endian value shifted right by `max(0, 8·len − nlen)` -/
theorem int_from_bits_eq (m : Bytes) (nlen : ℤ) :
    Gen.Ecdsa.int_from_bits m nlen = ((ofBE m : ℕ) : ℤ) / 2 ^ ((8 * (m.length : ℤ)) - nlen).toNat := by
  unfold Gen.Ecdsa.int_from_bits
  have hl : Py.len m = ((m.length : ℕ) : ℤ) := rfl
  have key : ∀ k : ℤ, k.toNat = ((8 * (m.length : ℤ)) - nlen).toNat →
      Py.shr (Py.fromBytesBE m) k = ((ofBE m : ℕ) : ℤ) / 2 ^ ((8 * (m.length : ℤ)) - nlen).toNat := by
    intro k hk
    unfold Py.shr Py.fromBytesBE
    rw [Int.fdiv_eq_ediv_of_nonneg _ (by positivity), hk]
  simp only
  split
  · apply key; rw [hl]; omega
  · apply key; rw [hl] at *; omega

/-- … and it has at most `nlen` bits -/
theorem int_from_bits_range (m : Bytes) (nlen : ℕ) :
    0 ≤ Gen.Ecdsa.int_from_bits m (nlen : ℤ) ∧ Gen.Ecdsa.int_from_bits m (nlen : ℤ) < 2 ^ nlen := by
  rw [int_from_bits_eq]
  have hv := ofBE_lt m
  have h256 : 256 ^ m.length = 2 ^ (8 * m.length) := by
    rw [show (256 : ℕ) = 2 ^ 8 by norm_num, ← Nat.pow_mul]
  rw [h256] at hv
  generalize ofBE m = v at hv
  have hk : ((8 * (m.length : ℤ)) - (nlen : ℤ)).toNat = 8 * m.length - nlen := by omega
  rw [hk]
  have e : ((v : ℤ) / 2 ^ (8 * m.length - nlen)) = ((v / 2 ^ (8 * m.length - nlen) : ℕ) : ℤ) := by
    push_cast; rfl
  rw [e]
  refine ⟨Int.natCast_nonneg _, ?_⟩
  have : v / 2 ^ (8 * m.length - nlen) < 2 ^ nlen := by
    apply Nat.div_lt_of_lt_mul
    by_cases h : nlen ≤ 8 * m.length
    · rw [← Nat.pow_add, show 8 * m.length - nlen + nlen = 8 * m.length by omega]; exact hv
    · have h1 : 8 * m.length - nlen = 0 := by omega
      rw [h1, Nat.pow_zero, Nat.one_mul]
      exact lt_of_lt_of_le hv (Nat.pow_le_pow_right (by norm_num) (by omega))
  exact_mod_cast this

/-- T7: the ECDSA challenge is the leftmost `nlen` bits of the digest, reduced mod n -/
theorem challenge_eq (n : ℤ) (m : Bytes) :
    challenge n m = (((ofBE m : ℕ) : ℤ) / 2 ^ ((8 * (m.length : ℤ)) - nlenOf n).toNat) % n := by
  unfold challenge
  rw [int_from_bits_eq]

end Btc.Rfc6979
